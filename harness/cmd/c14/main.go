// C14 — nothing received from the network or the admin port can crash the relay.
//
// The REAL relay binary is built from the tree (-race) and started as a child
// process on a generated TOML configuration (documented options with boundary
// values). Once it listens, batches of hostile input are sent to its plain TCP,
// UDP and pickle ports and hostile / boundary admin commands to its TCP admin
// port (plus the HTTP admin DELETE endpoints, the only way to remove a
// destination), each batch followed by ordinary metric traffic that exercises
// whatever the commands built, a settle time and a liveness probe (`view` on the
// admin port). Every batch is logged before it is sent.
//
// Oracle: after it started listening and until the harness sends SIGTERM the
// process must exist and answer; a `panic:` / `fatal error:` in its output or any
// exit is a violation whose witness is the configuration plus the last batches.
// Exiting *before* the listeners are up with an error message is "rejected",
// which the property allows; a Go panic at start-up is not a rejection.
// AMQP bodies go through the real consumeAMQP loop in an in-process child (no
// broker in this sandbox).
package main

import (
	"bufio"
	"bytes"
	"encoding/binary"
	"fmt"
	"io"
	"net"
	"net/http"
	"os"
	"os/exec"
	"path/filepath"
	"regexp"
	"strings"
	"sync"
	"syscall"
	"time"

	"github.com/streadway/amqp"

	"github.com/grafana/carbon-relay-ng/input"

	"verifharness/mon"
)

// ---------------------------------------------------------------- generators

var alpha = []string{"foo", "bar", "a", "b.c", "stats.timers.app1.requests.x", "servers.dc1.app2.cpu", "x=y", "unit=B.mtype=gauge.host=a", "m_is_1", "é", "a..b", ".lead", "a;t=v", "a;bad"}

func randName(r *mon.Rng) string {
	switch r.Intn(6) {
	case 0:
		return string(r.Bytes(r.Range(0, 12)))
	case 1:
		return strings.Repeat(r.Pick(alpha), r.Range(1, 400))
	default:
		return r.Pick(alpha) + fmt.Sprintf(".%d", r.Intn(50))
	}
}

func randLine(r *mon.Rng) []byte {
	vals := []string{"1", "1.5", "-3", "1e3", "NaN", "Inf", "", "x", "0x10", "99999999999999999999999999", "1e400"}
	tss := []string{"1500000000", "0", "-1", "4294967296", "1.5", "x", "", "99999999999999999999", fmt.Sprint(time.Now().Unix())}
	switch r.Intn(10) {
	case 0:
		return r.Bytes(r.Range(0, 200))
	case 1:
		return []byte(randName(r))
	case 2:
		return []byte(randName(r) + " " + r.Pick(vals))
	case 3:
		return []byte(randName(r) + " " + r.Pick(vals) + " " + r.Pick(tss) + " extra")
	case 4:
		return []byte(strings.Repeat(" ", r.Intn(5)) + randName(r) + "\t" + r.Pick(vals) + "  " + r.Pick(tss))
	default:
		return []byte(randName(r) + " " + r.Pick(vals) + " " + r.Pick(tss))
	}
}

func plainBatch(r *mon.Rng) []byte {
	var b bytes.Buffer
	n := r.Range(1, 60)
	for i := 0; i < n; i++ {
		b.Write(randLine(r))
		switch r.Intn(8) {
		case 0:
			b.WriteString("\r\n")
		case 1:
			// no terminator
		case 2:
			b.WriteString("\n\n")
		default:
			b.WriteByte('\n')
		}
	}
	if r.Chance(1, 15) {
		b.Write(bytes.Repeat([]byte("z"), 70000)) // longer than the scanner's limit
		b.WriteByte('\n')
	}
	return b.Bytes()
}

// goodTraffic: ordinary valid lines that exercise whatever the table contains.
func goodTraffic(r *mon.Rng, n int) []byte {
	var b bytes.Buffer
	now := time.Now().Unix()
	names := []string{"foo.bar", "servers.dc1.app1.cpu", "stats.timers.app1.requests.x", "abc.def", "collectd.localhost.x", "a.b.c", "prod.web.Err/s", "x.y;t=v", "unit=B.mtype=gauge.host=a"}
	for i := 0; i < n; i++ {
		fmt.Fprintf(&b, "%s%d %d %d\n", r.Pick(names), r.Intn(2000), i, now-int64(r.Intn(100)))
	}
	return b.Bytes()
}

// pickle opcodes for hand-made frames
func frame(p []byte) []byte {
	var b bytes.Buffer
	binary.Write(&b, binary.BigEndian, uint32(len(p)))
	b.Write(p)
	return b.Bytes()
}

func pickleBatch(r *mon.Rng) []byte {
	// a valid protocol-2 pickle of [("foo.bar", (1500000000, 1.0))] as CPython emits it
	valid := []byte("\x80\x02]q\x00U\x07foo.barq\x01J\x00/hYG?\xf0\x00\x00\x00\x00\x00\x00\x86q\x02\x86q\x03a.")
	var b bytes.Buffer
	n := r.Range(1, 6)
	for i := 0; i < n; i++ {
		switch r.Intn(11) {
		case 0:
			b.Write(frame(valid))
		case 1: // mutated valid
			m := append([]byte(nil), valid...)
			for k := 0; k < r.Range(1, 4); k++ {
				m[r.Intn(len(m))] = byte(r.U64())
			}
			b.Write(frame(m))
		case 2: // truncated
			b.Write(frame(valid[:r.Intn(len(valid))]))
		case 3: // opcode soup after a valid prefix
			b.Write(frame(append([]byte("\x80\x02]"), r.Bytes(r.Range(0, 80))...)))
		case 4: // giant length, no body
			binary.Write(&b, binary.BigEndian, uint32(r.PickInt([]int{0x7fffffff, 0xffffffff, 500*1024*1024 + 1, 500 * 1024 * 1024, 1 << 30})))
			b.Write(r.Bytes(r.Intn(20)))
		case 5: // zero length
			binary.Write(&b, binary.BigEndian, uint32(0))
		case 6: // protocol 0 text
			b.Write(frame([]byte("(lp0\n(S'foo.bar'\np1\n(I1500000000\nF1.0\ntp2\ntp3\na.")))
		case 7: // deep nesting / memo abuse
			b.Write(frame(append([]byte("\x80\x02"), bytes.Repeat([]byte("]"), r.Range(1, 5000))...)))
		case 8: // wrong shapes: dict, None, ints
			b.Write(frame([]byte("\x80\x02]q\x00(}q\x01NK\x01K\x02\x86q\x02e.")))
		case 9: // length prefix claims more than is sent (connection then closes)
			binary.Write(&b, binary.BigEndian, uint32(len(valid)+r.Range(1, 100)))
			b.Write(valid)
		default:
			b.Write(r.Bytes(r.Range(0, 300)))
		}
	}
	if r.Chance(1, 3) {
		// the connection ends inside a frame: header, then only the first k bytes of the payload
		binary.Write(&b, binary.BigEndian, uint32(r.PickInt([]int{1, 2, 3, 5, len(valid), 200})))
		cut := [][]byte{valid, []byte("(lp0\n(S'foo'\n"), []byte("]q\x00.")}[r.Intn(3)]
		b.Write(cut[:r.Intn(4)])
	}
	return b.Bytes()
}

var docCmds = []string{
	"addRoute sendAllMatch carbon-default  127.0.0.1:2003 spool=true pickle=false",
	"addBlack prefix collectd.localhost",
	"addBlack regex ^foo\\..*\\.cpu+",
	"addAgg sum regex=^stats\\.timers\\.(app|proxy|static)[0-9]+\\.requests\\.(.*) stats.timers._sum_$1.requests.$2 10 20 cache=true",
	"addAgg avg regex=^stats\\.timers\\.(app|proxy|static)[0-9]+\\.requests\\.(.*) sub=requests stats.timers._avg_$1.requests.$2 5 10 dropRaw=false",
	"addRoute sendAllMatch carbon-tagger sub==  127.0.0.1:2006",
	"addRoute sendFirstMatch analytics regex=(Err/s|wait_time|logger)  127.0.0.1:2003 prefix=prod. spool=true pickle=true  127.0.0.1:2004 prefix=staging. spool=true pickle=true",
	"addRoute consistentHashing ch  127.0.0.1:2003  127.0.0.1:2004:b",
	"addRoute pubsub pubsub  myproject graphite-ingest",
	"addRoute grafanaNet grafanaNet  http://127.0.0.1:1/metrics key /nonexistent/schemas /nonexistent/agg",
	"addRoute kafkaMdm k  127.0.0.1:1 topic none /nonexistent/schemas bySeries 1",
	"addRewriter foo bar 1",
	"addRewriter /^/ prefix. -1",
	"addRewriter /server\\.([^.]+)/ servers.${1}.collectd -1",
	"modDest carbon-default 0 prefix=foo",
	"modRoute carbon-default prefix=foo",
	"delRoute carbon-default",
	"view",
	"help",
}

// incl. values that overflow when turned into nanoseconds: 2^55 s and 2^56 s become 0, 9223372037 s becomes negative
var nums = []string{"0", "1", "-1", "2", "10", "00", "4294967296", "99999999999999999999", "1e3", "", " ", "36028797018963968", "9223372037", "72057594037927936", "18446744073709551615", "9223372036854775807"}

func cfgAggRegex(r *mon.Rng) string {
	if r.Chance(1, 3) {
		return r.Pick(aggRegexes)
	}
	return r.Pick([]string{"^servers\\.(dc[0-9]+)\\.(app|proxy)[0-9]+\\.(.*)", "(.*)", "^foo", ".*"})
}

// regexes for aggregations: ordinary, match-all in its spellings, degenerate and invalid ones
var aggRegexes = []string{"^foo", "(.*)", "^(a", "", "^servers\\.(.*)", ".*", "^.*$", "^.*", ".", ".+", "()", "^", "$", "(?i)FOO", "a{2,1}", "[", "(?P<n>foo)", "foo|", "|", "\\", "^servers\\.(.*)\\.(.*)$", "x*"}
var smallNums = []string{"0", "1", "2", "10", "00", "1000", "-1", "", "1e3"}
var funcs = []string{"sum", "avg", "min", "max", "last", "count", "delta", "derive", "stdev", "percentiles", "nosuch", ""}

func destOpts(r *mon.Rng) string {
	var o []string
	opts := []string{"flush", "reconn", "connbuf", "iobuf", "spoolbuf", "spoolmaxbytesperfile", "spoolsyncevery", "spoolsyncperiod", "spoolsleep", "unspoolsleep"}
	for i := 0; i < r.Intn(4); i++ {
		v := r.Pick(nums)
		if v == "4294967296" {
			v = "100000" // buffer sizes stay below what the machine can allocate
		}
		o = append(o, r.Pick(opts)+"="+v)
	}
	if r.Chance(1, 3) {
		o = append(o, "spool="+r.Pick([]string{"true", "false", "x"}))
	}
	if r.Chance(1, 3) {
		o = append(o, "pickle="+r.Pick([]string{"true", "false"}))
	}
	if r.Chance(1, 4) {
		o = append(o, r.Pick([]string{"prefix", "sub", "regex", "notRegex", "notPrefix", "notSub"})+"="+r.Pick([]string{"foo", "^a(", "[", "a|b", "e3"}))
	}
	return strings.Join(o, " ")
}

// cfgDestOpts: like destOpts but with well-formed values, so that most configurations get past the parser.
func cfgDestOpts(r *mon.Rng) string {
	var o []string
	opts := []string{"flush", "reconn", "connbuf", "iobuf", "spoolbuf", "spoolmaxbytesperfile", "spoolsyncevery", "spoolsyncperiod", "spoolsleep", "unspoolsleep"}
	vals := []string{"0", "1", "2", "10", "1000", "100000"}
	for i := 0; i < r.Intn(3); i++ {
		o = append(o, r.Pick(opts)+"="+r.Pick(vals))
	}
	if r.Chance(1, 3) {
		o = append(o, "spool="+r.Pick([]string{"true", "false"}))
	}
	if r.Chance(1, 3) {
		o = append(o, "pickle="+r.Pick([]string{"true", "false"}))
	}
	return strings.Join(o, " ")
}

func adminCmd(r *mon.Rng, st *state) string {
	switch r.PickInt([]int{0, 1, 2, 2, 3, 3, 3, 4, 5, 6, 7, 8, 9, 10, 11, 11, 11, 12, 13}) {
	case 0:
		return r.Pick(docCmds)
	case 1: // mutate a documented command
		c := []byte(r.Pick(docCmds))
		for k := 0; k < r.Range(1, 3); k++ {
			if len(c) == 0 {
				break
			}
			i := r.Intn(len(c))
			switch r.Intn(3) {
			case 0:
				c[i] = byte(r.Range(32, 126))
			case 1:
				c = append(c[:i], c[i+1:]...)
			default:
				c = append(c[:i], append([]byte(r.Pick([]string{" ", "  ", "=", "0", "$1"})), c[i:]...)...)
			}
		}
		return string(c)
	case 2: // aggregation: every parameter is usually an ordinary value and sometimes a boundary one, so that most
		// commands are accepted (and then exercised by traffic) with one unusual parameter at a time
		k := fmt.Sprintf("agg%d", st.n)
		st.n++
		pick := func(ordinary, boundary []string) string {
			if r.Chance(3, 4) {
				return r.Pick(ordinary)
			}
			return r.Pick(boundary)
		}
		return fmt.Sprintf("addAgg %s regex=%s %s %s %s%s",
			pick([]string{"sum", "avg", "max", "last", "count"}, funcs),
			pick([]string{"^foo", "(.*)", "^servers\\.(.*)", "^(servers|stats|foo)\\.(.*)"}, aggRegexes),
			"out."+k+r.Pick([]string{"", ".$1", ".$9", ".${1}"}),
			pick([]string{"1", "5", "10", "60"}, nums), pick([]string{"0", "2", "20", "120"}, nums),
			r.Pick([]string{"", " cache=true", " cache=true", " cache=false", " cache=maybe"})+r.Pick([]string{"", " dropRaw=true", " dropRaw=false"}))
	case 3: // carbon route with boundary destination options
		k := fmt.Sprintf("r%d", st.n)
		st.n++
		st.routes = append(st.routes, k)
		typ := r.Pick([]string{"sendAllMatch", "sendFirstMatch", "consistentHashing", "consistentHashing"})
		nd := r.Range(0, 4)
		if typ == "consistentHashing" {
			st.chRoutes = append(st.chRoutes, k)
		}
		c := "addRoute " + typ + " " + k + " " + r.Pick([]string{"", "", "prefix=foo ", "regex=^a( ", "sub=e3 "})
		for i := 0; i < nd; i++ {
			addr := fmt.Sprintf("127.0.0.1:%d", st.deadPort)
			if typ == "consistentHashing" && r.Bool() {
				addr += fmt.Sprintf(":i%d", i)
			}
			c += " " + addr + " " + destOpts(r) + " "
		}
		return strings.TrimRight(c, " ")
	case 4:
		if len(st.routes) > 0 {
			return "delRoute " + r.Pick(st.routes)
		}
		return "delRoute nosuch"
	case 5:
		rk := "nosuch"
		if len(st.routes) > 0 {
			rk = r.Pick(st.routes)
		}
		return fmt.Sprintf("modDest %s %s %s", rk, r.Pick(nums), r.Pick([]string{"prefix=x", "addr=127.0.0.1:1", "regex=(", "sub=", "addr=", "addr=::::", "notRegex=^a"}))
	case 6:
		rk := "nosuch"
		if len(st.routes) > 0 {
			rk = r.Pick(st.routes)
		}
		return fmt.Sprintf("modRoute %s %s", rk, r.Pick([]string{"prefix=x", "regex=(", "sub=", "notRegex=^a", "prefix="}))
	case 7:
		return "addBlack " + r.Pick([]string{"prefix", "sub", "regex", "notRegex", "notSub", "notPrefix", "x"}) + " " + r.Pick([]string{"foo", "(", "", "a b", "^servers"})
	case 8:
		return "addRewriter " + r.Pick([]string{"foo", "/(/", "/a/", "", "//"}) + " " + r.Pick([]string{"bar", "${1}", ""}) + " " + r.Pick([]string{"-1", "0", "1", "-2", "x", "99999999999999999999"})
	case 9: // random tokens
		toks := []string{"addRoute", "sendAllMatch", "addAgg", "sum ", "regex=", "prefix=", "  ", "##", "\"", "\"a b\"", "true", "false", "0", "=", "spool=", "flush=", "pickle=", "modDest", "delRoute", "grafanaNet", "kafkaMdm", "pubsub", "addDest", "x"}
		var c []string
		for i := 0; i < r.Range(1, 10); i++ {
			c = append(c, r.Pick(toks))
		}
		return strings.Join(c, r.Pick([]string{" ", "", "  "}))
	case 10:
		return string(r.Bytes(r.Range(0, 100)))
	case 11: // grafanaNet / kafkaMdm / pubsub: mostly well-formed, a few boundary options each
		k := fmt.Sprintf("g%d", st.n)
		st.n++
		st.routes = append(st.routes, k)
		opt := func(name string, vals []string) string {
			if r.Chance(2, 5) {
				return " " + name + "=" + r.Pick(vals)
			}
			return ""
		}
		small := []string{"0", "1", "2", "10", "1000"}
		switch r.Intn(3) {
		case 0:
			return fmt.Sprintf("addRoute grafanaNet %s  %s apikey %s %s", k, gnetAddr(r, st.deadPort), st.schemas, st.aggconf) +
				opt("concurrency", small) + opt("bufSize", small) + opt("flushMaxNum", small) + opt("flushMaxWait", small) + opt("timeout", small) +
				opt("orgId", []string{"1", "2", "0"}) + opt("blocking", []string{"false", "false", "false", "true"}) + opt("errBackoffMin", small) + opt("errBackoffFactor", []string{"1.5", "0", "1", "x"})
		case 1:
			codec := r.Pick([]string{"none", "snappy", "gzip", "none", "x"})
			part := r.Pick([]string{"byOrg", "bySeries", "bySeriesWithTags", "x"})
			return fmt.Sprintf("addRoute kafkaMdm %s  127.0.0.1:%d topic %s %s %s %s", k, st.deadPort, codec, st.schemas, part, r.Pick([]string{"1", "1", "2", "0", "x"})) +
				opt("bufSize", small) + opt("flushMaxNum", small) + opt("flushMaxWait", small) + opt("timeout", small) + opt("blocking", []string{"false", "false", "false", "true"}) +
				opt("tlsEnabled", []string{"true", "false"}) + opt("tlsClientCert", []string{"/nonexistent"}) + opt("tlsClientKey", []string{"/nonexistent"}) +
				opt("saslEnabled", []string{"true", "false"}) + opt("saslMechanism", []string{"PLAIN", "SCRAM-SHA-256", "bogus"})
		default:
			return fmt.Sprintf("addRoute pubsub %s  proj topic", k) + opt("codec", []string{"gzip", "none", "x"}) + opt("format", []string{"plain", "pickle", "x"}) + opt("bufSize", small) + opt("flushMaxWait", small)
		}
	case 12:
		return strings.Repeat(r.Pick([]string{"addRoute ", "a", " ", "regex="}), r.Range(1, 300)) // longer than the 1024-byte read buffer
	default:
		return "view"
	}
}

// gnetAddr draws the address of a grafanaNet route: mostly the documented forms, now and then a URL whose path
// is a /metrics endpoint but whose text is not (query, fragment, escapes, doubled slashes), or no endpoint at all.
func gnetAddr(r *mon.Rng, port int) string {
	base := fmt.Sprintf("http://127.0.0.1:%d", port)
	if r.Chance(3, 5) {
		return base + r.Pick([]string{"/metrics", "/metrics", "/metrics/", "/graphite/metrics", "/graphite/metrics/"})
	}
	return r.Pick([]string{base + "/metrics?x=1", base + "/metrics?", base + "/metrics#frag", base + "/metrics/?a=b", base + "/%6detrics",
		base + "/metrics//", base + "/metrics/%2F", base + "/metric", base, base + "/", "http:///metrics", "127.0.0.1/metrics", "https://[::1]:1/metrics",
		base + "/a/../metrics", base + "/graphite/metrics;v=1", "http://user:pw@127.0.0.1:1/metrics", base + "/metrics%3Fx", "HTTP://127.0.0.1:1/METRICS"})
}

// ---------------------------------------------------------------- config

type state struct {
	n        int
	routes   []string
	chRoutes []string // consistentHashing routes (with how many destinations they were given)
	deadPort int
	schemas  string
	aggconf  string
}

func freePort() int {
	l, err := net.Listen("tcp", "127.0.0.1:0")
	if err != nil {
		panic(err)
	}
	p := l.Addr().(*net.TCPAddr).Port
	l.Close()
	return p
}

type ports struct{ plain, pickle, admin, http int }

func genConfig(r *mon.Rng, dir string, p ports, st *state) string {
	var b strings.Builder
	q := func(s string) string { return fmt.Sprintf("%q", s) }
	fmt.Fprintf(&b, "instance = \"default\"\nlog_level = \"error\"\nspool_dir = %s\n", q(filepath.Join(dir, "spool")))
	fmt.Fprintf(&b, "listen_addr = \"127.0.0.1:%d\"\npickle_addr = \"127.0.0.1:%d\"\nadmin_addr = \"127.0.0.1:%d\"\nhttp_addr = \"127.0.0.1:%d\"\n", p.plain, p.pickle, p.admin, p.http)
	maxAge := r.Pick([]string{"24h", "1s", "1ms", "24h", "10ns", "2562047h"})
	if r.Chance(1, 7) {
		maxAge = r.Pick([]string{"0s", "-1s", "5ns", "", "1", "-2562047h", "0"})
	}
	fmt.Fprintf(&b, "bad_metrics_max_age = %s\n", q(maxAge))
	fmt.Fprintf(&b, "validation_level_legacy = %s\nvalidation_level_m20 = %s\nvalidate_order = %v\n", q(r.Pick([]string{"none", "medium", "strict"})), q(r.Pick([]string{"none", "medium"})), r.Chance(1, 4))
	if r.Chance(1, 3) {
		fmt.Fprintf(&b, "plain_read_timeout = %s\npickle_read_timeout = %s\n", q(r.Pick([]string{"1s", "0s", "100ms", "2m"})), q(r.Pick([]string{"1s", "0s", "2m"})))
	}
	if r.Chance(1, 4) {
		fmt.Fprintf(&b, "max_procs = %d\n", r.PickInt([]int{0, 1, 2, -1}))
	}
	// blacklist
	if r.Chance(1, 2) {
		b.WriteString("blacklist = [\n")
		for i := 0; i < r.Range(1, 3); i++ {
			fmt.Fprintf(&b, "  %s,\n", q(r.Pick([]string{"prefix collectd.localhost", "regex ^foo\\..*\\.cpu+", "sub zzz", "notSub .", "notRegex ."})))
		}
		b.WriteString("]\n")
	}
	if r.Chance(1, 3) {
		b.WriteString("[init]\ncmds = [\n")
		for i := 0; i < r.Range(1, 3); i++ {
			fmt.Fprintf(&b, "  %s,\n", q(r.Pick([]string{"addBlack prefix collectd.localhost", "addRewriter foo bar 1", "addAgg sum regex=^stats\\.timers\\.(app|proxy|static)[0-9]+\\.requests\\.(.*) stats.timers._sum_$1.requests.$2 10 20 cache=true", "addRoute sendAllMatch init" + fmt.Sprint(i) + "  127.0.0.1:" + fmt.Sprint(st.deadPort) + " spool=false", adminCmd(r, st)})))
		}
		b.WriteString("]\n")
	}
	for i := 0; i < r.Range(0, 3); i++ {
		b.WriteString("[[aggregation]]\n")
		fmt.Fprintf(&b, "function = %s\n", q(r.Pick(funcs[:10])))
		if !r.Chance(1, 14) {
			fmt.Fprintf(&b, "regex = %s\n", q(cfgAggRegex(r)))
		}
		fmt.Fprintf(&b, "format = %s\ninterval = %d\nwait = %d\n", q(r.Pick([]string{"agg.$1", "aggregates.$1.$2.$3.sum", "x"})), r.PickInt([]int{0, 1, 10, 60, 60, 10, 5, 30, 1, -1, 10, 60, 5, 30, 10, 36028797018963968, 9223372037}), r.PickInt([]int{0, 1, 20, 20, 120, -5, 20, 120, 36028797018963968}))
		if r.Bool() {
			fmt.Fprintf(&b, "cache = %v\ndropRaw = %v\n", r.Bool(), r.Chance(1, 4))
		}
	}
	for i := 0; i < r.Range(0, 2); i++ {
		old := r.Pick([]string{"foo", "/^/", "/server\\.([^.]+)/", "bar"})
		max := -1
		if !strings.HasPrefix(old, "/") {
			max = r.PickInt([]int{-1, 0, 1, 3})
		}
		if r.Chance(1, 10) {
			old, max = r.Pick([]string{"", "/(/", "foo"}), r.PickInt([]int{-2, 1, -1})
		}
		fmt.Fprintf(&b, "[[rewriter]]\nold = %s\nnew = %s\nnot = %s\nmax = %d\n", q(old), q(r.Pick([]string{"bar", "prefix.", "servers.${1}.collectd"})), q(r.Pick([]string{"", "collectd", "/x/"})), max)
	}
	nr := r.Range(1, 3)
	for i := 0; i < nr; i++ {
		k := fmt.Sprintf("cfg%d", i)
		st.routes = append(st.routes, k)
		typ := r.Pick([]string{"sendAllMatch", "sendFirstMatch", "consistentHashing"})
		if typ == "consistentHashing" {
			st.chRoutes = append(st.chRoutes, k)
		}
		fmt.Fprintf(&b, "[[route]]\nkey = %s\ntype = %s\n", q(k), q(typ))
		if r.Chance(1, 3) {
			fmt.Fprintf(&b, "%s = %s\n", r.Pick([]string{"prefix", "sub", "regex", "notRegex"}), q(r.Pick([]string{"foo", "^servers", "abc"})))
		}
		b.WriteString("destinations = [\n")
		nd := r.Range(1, 4)
		if typ == "consistentHashing" && nd < 2 {
			nd = 2
		}
		for d := 0; d < nd; d++ {
			addr := fmt.Sprintf("127.0.0.1:%d", st.deadPort)
			if typ == "consistentHashing" {
				addr += fmt.Sprintf(":c%d", d)
			}
			opts := cfgDestOpts(r)
			if typ != "consistentHashing" && r.Chance(1, 4) {
				opts += " " + r.Pick([]string{"prefix=foo", "sub=e3", "regex=^servers", "notRegex=abc"})
			}
			fmt.Fprintf(&b, "  %s,\n", q(strings.TrimSpace(addr+" "+opts)))
		}
		b.WriteString("]\n")
	}
	if r.Chance(1, 5) {
		// a grafanaNet route from the file (dead endpoint: posts fail and are retried, nothing else happens)
		st.routes = append(st.routes, "gnet")
		fmt.Fprintf(&b, "[[route]]\nkey = \"gnet\"\ntype = \"grafanaNet\"\naddr = %s\napikey = \"k\"\nschemasFile = %s\naggregationFile = %s\n", q(gnetAddr(r, st.deadPort)), q(st.schemas), q(st.aggconf))
		if r.Bool() {
			fmt.Fprintf(&b, "concurrency = %d\nbufSize = %d\nflushMaxNum = %d\nflushMaxWait = %d\ntimeout = %d\n",
				r.PickInt([]int{1, 2, 10, 0, -1}), r.PickInt([]int{0, 1, 1000, 1000, -1}), r.PickInt([]int{1, 10, 1000, 0}), r.PickInt([]int{1, 100, 500, 0, -1}), r.PickInt([]int{1, 100, 10000, 0}))
		}
	}
	if r.Chance(1, 6) {
		// a cloudWatch route (only configurable from the file): publishing fails offline, its buffer, ticker and
		// shutdown path are what is exercised
		st.routes = append(st.routes, "cw")
		fmt.Fprintf(&b, "[[route]]\nkey = \"cw\"\ntype = \"cloudWatch\"\nregion = \"us-east-1\"\nnamespace = \"ns\"\nbufSize = %d\nflushMaxWait = %d\nflushMaxSize = %d\nblocking = %v\n",
			r.PickInt([]int{0, 1, 10, 1000}), r.PickInt([]int{0, 1, 100, 100, -1}), r.PickInt([]int{0, 1, 20, 20, -1}), r.Chance(1, 5))
	}
	return b.String()
}

// ---------------------------------------------------------------- child relay

type relay struct {
	cmd  *exec.Cmd
	log  string
	p    ports
	done chan error
}

func startRelay(bin, dir, config string, p ports) (*relay, error) {
	cfgPath := filepath.Join(dir, "relay.toml")
	if err := os.WriteFile(cfgPath, []byte(config), 0644); err != nil {
		return nil, err
	}
	logPath := filepath.Join(dir, "relay.log")
	lf, err := os.Create(logPath)
	if err != nil {
		return nil, err
	}
	cmd := exec.Command(bin, cfgPath)
	cmd.Stdout, cmd.Stderr = lf, lf
	cmd.Dir = dir
	cmd.Env = append(os.Environ(), "GORACE=halt_on_error=0 log_path="+filepath.Join(dir, "relayrace"))
	if err := cmd.Start(); err != nil {
		lf.Close()
		return nil, err
	}
	lf.Close()
	rl := &relay{cmd: cmd, log: logPath, p: p, done: make(chan error, 1)}
	go func() { rl.done <- cmd.Wait() }()
	return rl, nil
}

func (rl *relay) exited() (bool, error) {
	select {
	case err := <-rl.done:
		rl.done <- err
		return true, err
	default:
		return false, nil
	}
}

func dial(port int) (net.Conn, error) {
	return net.DialTimeout("tcp", fmt.Sprintf("127.0.0.1:%d", port), 2*time.Second)
}

// waitListening: admin + plain ports accept connections; false if the process exits first.
func (rl *relay) waitListening() bool {
	for i := 0; i < 1500; i++ {
		if ex, _ := rl.exited(); ex {
			return false
		}
		ok := 0
		for _, p := range []int{rl.p.admin, rl.p.plain, rl.p.pickle} {
			if c, err := dial(p); err == nil {
				c.Close()
				ok++
			}
		}
		if ok == 3 {
			return true
		}
		time.Sleep(20 * time.Millisecond)
	}
	return false
}

// adminSend sends one command on a fresh admin connection and returns the reply.
func (rl *relay) adminSend(cmd string) (string, error) {
	c, err := dial(rl.p.admin)
	if err != nil {
		return "", err
	}
	defer c.Close()
	c.SetDeadline(time.Now().Add(10 * time.Second))
	br := bufio.NewReader(c)
	br.ReadString('\n') // banner
	if _, err := c.Write([]byte(cmd)); err != nil {
		return "", err
	}
	c.SetReadDeadline(time.Now().Add(1500 * time.Millisecond))
	var out bytes.Buffer
	buf := make([]byte, 8192)
	for {
		n, err := br.Read(buf)
		out.Write(buf[:n])
		if err != nil || strings.Contains(out.String(), "\n--\n") || strings.HasSuffix(out.String(), "ok\n") || out.Len() > 1<<20 {
			break
		}
		if strings.Contains(out.String(), "experimental feature\n") && out.Len() > 90 {
			break // second banner = command processed
		}
	}
	return out.String(), nil
}

func (rl *relay) alive() bool {
	for try := 0; try < 3; try++ {
		if ex, _ := rl.exited(); ex {
			return false
		}
		out, err := rl.adminSend("view")
		if err == nil && strings.Contains(out, "## Routes") {
			return true
		}
		time.Sleep(300 * time.Millisecond)
	}
	ex, _ := rl.exited()
	return !ex && false
}

func sendTCP(port int, data []byte, r *mon.Rng) {
	c, err := dial(port)
	if err != nil {
		return
	}
	defer c.Close()
	c.SetDeadline(time.Now().Add(5 * time.Second))
	// random segmentation
	for len(data) > 0 {
		n := len(data)
		if r.Chance(1, 2) {
			n = r.Range(1, len(data))
		}
		if _, err := c.Write(data[:n]); err != nil {
			return
		}
		data = data[n:]
	}
	if r.Chance(1, 3) {
		if tc, ok := c.(*net.TCPConn); ok {
			tc.SetLinger(0) // abortive close
		}
	}
}

// underTraffic runs f while valid lines are streaming in on the plain-text port over several connections, so that
// dispatchers are inside the table (holding whatever snapshot they loaded) when f changes it.
func underTraffic(port int, r *mon.Rng, f func()) {
	var wg sync.WaitGroup
	for c := 0; c < 3; c++ {
		data := goodTraffic(r, 1500)
		wg.Add(1)
		go func() {
			defer wg.Done()
			conn, err := dial(port)
			if err != nil {
				return
			}
			defer conn.Close()
			conn.SetWriteDeadline(time.Now().Add(5 * time.Second))
			for len(data) > 0 {
				n := 4096
				if n > len(data) {
					n = len(data)
				}
				if _, err := conn.Write(data[:n]); err != nil {
					return
				}
				data = data[n:]
			}
		}()
	}
	time.Sleep(5 * time.Millisecond)
	f()
	wg.Wait()
}

func storm(port int, r *mon.Rng, d time.Duration) {
	var wg sync.WaitGroup
	end := time.Now().Add(d)
	for c := 0; c < 4; c++ {
		data := goodTraffic(r, 400)
		wg.Add(1)
		go func() {
			defer wg.Done()
			conn, err := dial(port)
			if err != nil {
				return
			}
			defer conn.Close()
			for time.Now().Before(end) {
				conn.SetWriteDeadline(time.Now().Add(2 * time.Second))
				if _, err := conn.Write(data); err != nil {
					return
				}
				time.Sleep(5 * time.Millisecond)
			}
		}()
	}
	wg.Wait()
}

// mapRaces reads the race detector's reports of a relay child. A report in which one of the two accesses is a
// map operation of the Go runtime is a latent crash: the runtime ends the process with "fatal error: concurrent
// map read and map write" / "concurrent map writes" whenever it notices the same thing itself. Returns one
// signature (first relay frame below the map access) per such report, and the number of other reports.
func mapRaces(dir string) (sigs []string, excerpts []string, other int) {
	files, _ := filepath.Glob(filepath.Join(dir, "relayrace.*"))
	for _, f := range files {
		b, err := os.ReadFile(f)
		if err != nil {
			continue
		}
		for _, blk := range strings.Split(string(b), "WARNING: DATA RACE")[1:] {
			if i := strings.Index(blk, "=================="); i >= 0 {
				blk = blk[:i]
			}
			isMap := false
			frame := ""
			for _, sec := range strings.Split(blk, "\n\n") {
				lines := strings.Split(strings.TrimSpace(sec), "\n")
				if len(lines) < 2 || !(strings.Contains(lines[0], "by goroutine") || strings.Contains(lines[0], "by main goroutine")) {
					continue
				}
				top := strings.TrimSpace(lines[1])
				if strings.HasPrefix(top, "runtime.map") {
					isMap = true
					for _, l := range lines[1:] {
						l = strings.TrimSpace(l)
						if strings.HasPrefix(l, "github.com/grafana/carbon-relay-ng/") {
							frame = strings.TrimPrefix(l, "github.com/grafana/carbon-relay-ng/")
							if k := strings.LastIndex(frame, "("); k > 0 {
								frame = frame[:k]
							}
							break
						}
					}
				}
			}
			if isMap && frame != "" {
				sigs = append(sigs, frame)
				if len(blk) > 3000 {
					blk = blk[:3000]
				}
				excerpts = append(excerpts, blk)
			} else {
				other++
			}
		}
	}
	return
}

func sendUDP(port int, data []byte) {
	c, err := net.Dial("udp", fmt.Sprintf("127.0.0.1:%d", port))
	if err != nil {
		return
	}
	defer c.Close()
	if len(data) > 60000 {
		data = data[:60000]
	}
	c.Write(data)
}

var rejMu sync.Mutex
var rejections = map[string]int{}

var deathRe = regexp.MustCompile(`(?m)^(panic: .*|fatal error: .*|.*\[FATAL\].*|.*level=fatal.*)$`)
var frameRe = regexp.MustCompile(`(?m)^github.com/grafana/carbon-relay-ng/([\w./()*\-]+)\(`)

func deathSig(log string, exitErr error) (sig, excerpt string) {
	loc := deathRe.FindStringIndex(log)
	if loc == nil {
		tail := log
		if len(tail) > 1500 {
			tail = tail[len(tail)-1500:]
		}
		return fmt.Sprintf("relay-exited:%v", exitErr), tail
	}
	line := log[loc[0]:loc[1]]
	tail := log[loc[0]:]
	if len(tail) > 3000 {
		tail = tail[:3000]
	}
	norm := regexp.MustCompile(`0x[0-9a-f]+|\d+`).ReplaceAllString(line, "N")
	norm = regexp.MustCompile(`^N-N-N N:N:N\.N `).ReplaceAllString(norm, "")
	if len(norm) > 90 {
		norm = norm[:90]
	}
	fr := ""
	if strings.HasPrefix(line, "panic") || strings.HasPrefix(line, "fatal error") {
		// first repo frame of the first goroutine after the panic line
		if m := frameRe.FindStringSubmatch(tail); m != nil {
			fr = m[1]
		}
	}
	return "relay-died:" + fr + ":" + norm, tail
}

// ---------------------------------------------------------------- one child

func runChild(res *mon.Result, bin string, idx int, base string) {
	r := mon.NewRng(mon.Seed(), 14, uint64(idx))
	dir := filepath.Join(base, fmt.Sprintf("child%d", idx))
	os.RemoveAll(dir)
	os.MkdirAll(filepath.Join(dir, "spool"), 0755)
	defer os.RemoveAll(dir)
	var lastHistory *[]string
	defer func() {
		if w := os.Getenv("VERIF_WORK"); w != "" && os.Getenv("VERIF_KEEP_RACE") != "" {
			files, _ := filepath.Glob(filepath.Join(dir, "relayrace.*"))
			for _, f := range files {
				if b, err := os.ReadFile(f); err == nil {
					os.WriteFile(filepath.Join(w, fmt.Sprintf("child%d-%s", idx, filepath.Base(f))), b, 0644)
				}
			}
		}
		sigs, ex, other := mapRaces(dir)
		res.Count("relay_race_reports_not_on_maps", other)
		seen := map[string]bool{}
		for i, sg := range sigs {
			if seen[sg] {
				continue
			}
			seen[sg] = true
			w := map[string]interface{}{"child": idx, "race_report": ex[i]}
			if lastHistory != nil {
				h := *lastHistory
				if len(h) > 6 {
					h = h[len(h)-6:]
				}
				w["last_batches"] = h
			}
			res.Violate("relay-map-race:"+sg, fmt.Sprintf("child %d: the race detector saw an unsynchronised map access in the relay under plain traffic (%s); the Go runtime ends the process with \"fatal error: concurrent map ...\" when it notices one", idx, sg), w)
		}
	}()
	st := &state{deadPort: freePort()}
	st.schemas = filepath.Join(dir, "storage-schemas.conf")
	st.aggconf = filepath.Join(dir, "storage-aggregation.conf")
	os.WriteFile(st.schemas, []byte("[default]\npattern = .*\nretentions = 10s:1d\n"), 0644)
	os.WriteFile(st.aggconf, []byte("[default]\npattern = .*\nxFilesFactor = 0.5\naggregationMethod = average\n"), 0644)
	p := ports{freePort(), freePort(), freePort(), freePort()}
	config := genConfig(r, dir, p, st)
	res.LogCase("child %d config:\n%s", idx, config)
	if idx < 16 {
		c := config
		if len(c) > 1500 {
			c = c[:1500] + "..."
		}
		res.Sample(map[string]interface{}{"child": idx, "config": c})
	}
	rl, err := startRelay(bin, dir, config, p)
	if err != nil {
		res.Inconclusive("could not start the relay: " + err.Error())
		return
	}
	var history []string
	lastHistory = &history
	witness := func(extra map[string]interface{}) map[string]interface{} {
		w := map[string]interface{}{"child": idx, "config": config}
		h := history
		if len(h) > 6 {
			h = h[len(h)-6:]
		}
		w["last_batches"] = h
		for k, v := range extra {
			w[k] = v
		}
		return w
	}
	readLog := func() string { b, _ := os.ReadFile(rl.log); return string(b) }
	kill := func() {
		rl.cmd.Process.Kill()
		<-rl.done
	}
	if !rl.waitListening() {
		ex, exErr := rl.exited()
		log := readLog()
		if !ex {
			kill()
			res.Inconclusive(fmt.Sprintf("child %d: relay neither listening nor exited after 30s", idx))
			return
		}
		if regexp.MustCompile(`(?m)^(panic: |fatal error: )`).MatchString(log) {
			sig, ex := deathSig(log, exErr)
			res.Violate("startup-"+sig, "the relay accepted parsing of this configuration and then crashed with a Go panic instead of rejecting it with an error", witness(map[string]interface{}{"output": ex}))
		} else {
			res.Count("configs_rejected_with_error", 1)
			lines := strings.Split(strings.TrimSpace(log), "\n")
			last := lines[len(lines)-1]
			if i := strings.Index(last, "] "); i >= 0 {
				last = last[i+2:]
			}
			last = regexp.MustCompile(`\d+`).ReplaceAllString(last, "N")
			if len(last) > 100 {
				last = last[:100]
			}
			rejMu.Lock()
			rejections[last]++
			rejMu.Unlock()
		}
		res.Eval(1)
		return
	}
	res.Count("configs_started", 1)
	nb := mon.N(24, 40)
	died := false
	for b := 0; b < nb && !died; b++ {
		kind := r.Intn(10)
		var desc string
		switch {
		case kind < 4: // admin commands
			n := r.Range(1, 4)
			for i := 0; i < n; i++ {
				c := adminCmd(r, st)
				desc = fmt.Sprintf("admin %q", c)
				history = append(history, desc)
				res.LogCase("child %d batch %d: %s", idx, b, desc)
				if r.Chance(1, 5) {
					// a second command on the same connection, sent without waiting for the reply
					c2 := adminCmd(r, st)
					history = append(history, fmt.Sprintf("admin (same connection) %q", c2))
					res.LogCase("child %d batch %d: + %q", idx, b, c2)
					rl.adminSend(c + "\n" + c2)
					res.Count("admin_commands_sent", 1)
				} else if strings.HasPrefix(c, "delRoute ") {
					underTraffic(p.plain, r, func() { rl.adminSend(c) })
					res.Count("route_deletions_under_traffic", 1)
				} else {
					rl.adminSend(c)
				}
				res.Count("admin_commands_sent", 1)
			}
		case kind < 6:
			data := plainBatch(r)
			desc = fmt.Sprintf("plain-tcp %d bytes %.300q", len(data), data)
			history = append(history, desc)
			res.LogCase("child %d batch %d: %s", idx, b, desc)
			sendTCP(p.plain, data, r)
			res.Count("plain_tcp_batches", 1)
		case kind < 7:
			data := plainBatch(r)
			desc = fmt.Sprintf("udp %d bytes %.300q", len(data), data)
			history = append(history, desc)
			res.LogCase("child %d batch %d: %s", idx, b, desc)
			sendUDP(p.plain, data)
			res.Count("udp_datagrams", 1)
		case kind < 9:
			data := pickleBatch(r)
			desc = fmt.Sprintf("pickle %d bytes %.300q", len(data), data)
			history = append(history, desc)
			res.LogCase("child %d batch %d: %s", idx, b, desc)
			sendTCP(p.pickle, data, r)
			res.Count("pickle_batches", 1)
		default: // HTTP admin: delete entries by index / key
			var path string
			sel := r.Intn(5)
			if len(st.chRoutes) > 0 && r.Chance(1, 2) {
				sel = 5
			}
			switch sel {
			case 5: // remove one destination (not necessarily the last-listed one) of a consistent-hashing route
				path = fmt.Sprintf("/routes/%s/destinations/%s", r.Pick(st.chRoutes), r.Pick([]string{"0", "0", "1", "2"}))
			case 0:
				rk := "nosuch"
				if len(st.routes) > 0 {
					rk = r.Pick(st.routes)
				}
				path = fmt.Sprintf("/routes/%s/destinations/%s", rk, r.Pick([]string{"0", "0", "1", "5", "-1", "x"}))
			case 1:
				path = "/blacklists/" + r.Pick([]string{"0", "1", "9", "-1", "x"})
			case 2:
				path = "/rewriters/" + r.Pick([]string{"0", "1", "9", "-1"})
			case 3:
				path = "/aggregators/" + r.Pick([]string{"0", "1", "9", "-1"})
			default:
				rk := "nosuch"
				if len(st.routes) > 0 {
					rk = r.Pick(st.routes)
				}
				path = "/routes/" + rk
			}
			paths := []string{path}
			if strings.Contains(path, "/destinations/") && r.Chance(1, 4) {
				// remove every destination of that route, one by one (index 0 until nothing is left)
				base := path[:strings.LastIndex(path, "/")]
				paths = []string{base + "/0", base + "/0", base + "/0", base + "/0"}
			}
			desc = "http DELETE " + strings.Join(paths, " , ")
			history = append(history, desc)
			res.LogCase("child %d batch %d: %s", idx, b, desc)
			del := func() {
				for _, pth := range paths {
					req, _ := http.NewRequest("DELETE", fmt.Sprintf("http://127.0.0.1:%d%s", p.http, pth), nil)
					cl := &http.Client{Timeout: 5 * time.Second}
					if resp, err := cl.Do(req); err == nil {
						io.Copy(io.Discard, resp.Body)
						resp.Body.Close()
					}
				}
			}
			if strings.HasPrefix(path, "/routes/") {
				// routes and destinations are taken away while dispatchers are busy with them
				underTraffic(p.plain, r, del)
				res.Count("route_deletions_under_traffic", 1)
			} else {
				del()
			}
			res.Count("http_admin_requests", 1)
		}
		if b%8 == 5 {
			// sustained traffic on four connections at once, long enough to cross a second boundary: whatever per-second
			// or per-name state the table's entries keep is then touched from several input goroutines at the same time
			if r.Chance(1, 2) {
				// make sure some storms meet an aggregation that keeps shared per-name state (match cache, raw
				// lines consumed on the input goroutines)
				c := fmt.Sprintf("addAgg %s regex=^(servers|stats|foo)\\.(.*) out.storm%d.$2 %d %d cache=true dropRaw=%v", r.Pick([]string{"sum", "avg", "max", "count"}), b, r.PickInt([]int{1, 5, 10}), r.PickInt([]int{2, 20}), r.Bool())
				history = append(history, fmt.Sprintf("admin %q", c))
				res.LogCase("child %d batch %d: admin %q", idx, b, c)
				rl.adminSend(c)
				res.Count("admin_commands_sent", 1)
			}
			history = append(history, "storm: 4 connections streaming valid lines for 1.2s")
			res.LogCase("child %d batch %d: storm", idx, b)
			storm(p.plain, r, 1200*time.Millisecond)
			res.Count("storms", 1)
		}
		// ordinary traffic exercising whatever the table now contains
		gt := goodTraffic(r, 150)
		history = append(history, fmt.Sprintf("traffic: %d valid lines on plain tcp", 150))
		sendTCP(p.plain, gt, mon.NewRng(1, 1, 1))
		time.Sleep(300 * time.Millisecond)
		if !rl.alive() {
			died = true
		}
		res.Count("batches", 1)
		res.Count("liveness_probes", 1)
	}
	if died {
		ex, exErr := rl.exited()
		if !ex {
			// exists but does not answer: two samples via SIGQUIT would kill it; take the log and treat as hang
			rl.cmd.Process.Signal(syscall.SIGQUIT)
			time.Sleep(2 * time.Second)
			kill()
			log := readLog()
			if w := os.Getenv("VERIF_WORK"); w != "" {
				os.WriteFile(filepath.Join(w, fmt.Sprintf("unresponsive-child%d.log", idx)), []byte(log), 0644)
			}
			// keep the goroutines that are inside repo code but not plain listeners
			var keep []string
			for _, g := range strings.Split(log, "\n\n") {
				if strings.Contains(g, "carbon-relay-ng/aggregator.") || strings.Contains(g, "carbon-relay-ng/table.") || strings.Contains(g, "carbon-relay-ng/route.") || strings.Contains(g, "carbon-relay-ng/destination.") {
					if len(g) > 1500 {
						g = g[:1500]
					}
					keep = append(keep, g)
				}
			}
			log = strings.Join(keep, "\n\n")
			if len(log) > 20000 {
				log = log[:20000]
			}
			// alive but not answering is not a crash: a route in blocking mode towards a dead endpoint stalls the
			// table by design (docs/config.md: "blocking ... puts backpressure on the table"), and `view` waits for
			// the aggregators behind it. Recorded, never a C14 verdict.
			_ = log
			res.Inconclusive(fmt.Sprintf("child %d: relay alive but `view` no longer answers after %q (back-pressure from a blocking route?); exploration of this child stopped", idx, history[len(history)-2]))
			res.Count("children_stopped_unresponsive", 1)
		} else {
			if l := readLog(); strings.Contains(l, "address already in use") {
				// another process grabbed one of the ports between reserving and listening: harness artefact
				res.Inconclusive(fmt.Sprintf("child %d: a listener could not bind (port taken by another process)", idx))
				res.Eval(1)
				return
			}
			sig, excerpt := deathSig(readLog(), exErr)
			res.Violate(sig, fmt.Sprintf("the relay process died after it had started listening (child %d, after %q)", idx, history[len(history)-2]), witness(map[string]interface{}{"output": excerpt}))
		}
		res.Eval(1)
		return
	}
	// orderly end
	rl.cmd.Process.Signal(syscall.SIGTERM)
	select {
	case <-rl.done:
	case <-time.After(40 * time.Second):
		kill()
	}
	if log := readLog(); regexp.MustCompile(`(?m)^(panic: |fatal error: )`).MatchString(log) {
		sig, excerpt := deathSig(log, nil)
		res.Violate("at-shutdown-"+sig, "Go panic in the relay's output", witness(map[string]interface{}{"output": excerpt}))
	}
	res.NonTrivial(fmt.Sprintf("child/%d", idx))
	res.Eval(1)
}

// ---------------------------------------------------------------- AMQP in-process child

type nopCloser struct{}

func (nopCloser) Close() error { return nil }

func amqpChild() {
	mon.InitRepo()
	seed := mon.Seed()
	t := mon.NewTable("medium", "medium", false, "/nonexistent")
	mon.Apply(t, "addAgg sum regex=^foo\\.(.*) agg.$1 10 20")
	mon.Apply(t, "addRewriter foo bar 1")
	mon.Apply(t, fmt.Sprintf("addRoute sendAllMatch a  127.0.0.1:%d spool=false", freePort()))
	ch := make(chan amqp.Delivery)
	a := input.VerifNewMockedAMQP(t, ch, nopCloser{}, nopCloser{})
	a.Start()
	n := mon.N(3000, 100000)
	for i := 0; i < n; i++ {
		r := mon.NewRng(seed, 141, uint64(i))
		var body []byte
		switch r.Intn(4) {
		case 0:
			body = r.Bytes(r.Range(0, 9000))
		case 1:
			body = bytes.Repeat([]byte("a"), r.Range(4090, 4100))
		default:
			body = plainBatch(r)
		}
		ch <- amqp.Delivery{Body: body}
	}
	a.Stop()
	fmt.Println("AMQP-CHILD-OK", n)
}

func main() {
	if os.Getenv("VERIF_CHILD") == "amqp" {
		amqpChild()
		return
	}
	res := mon.NewResult("C14")
	res.Rule = "children = generated TOML configurations (documented options, boundary values 0/1/huge/negative) on which the real -race relay binary is started; each child gets batches of {hostile bytes on plain TCP / UDP / pickle ports, boundary + mutated + random admin commands, HTTP admin DELETEs}, each followed by valid traffic and a liveness probe; non-trivial = a child that started listening and survived (or died = violation) with all its batches probed; distinct = child index. Plus AMQP bodies through the real consumeAMQP loop in an in-process child"
	res.Assume("universal negative: the evidence lists the inputs tried, it does not show absence of crashes")
	res.Assume("exit before the listeners are up with an error message (no Go panic) counts as 'configuration rejected'")
	res.Assume("buffer-size options are kept below what the machine can allocate (a 4-billion-slot queue is an out-of-memory abort, not a relay defect)")
	res.Assume("HTTP admin DELETE endpoints are included because the property's own example (removing the last destination of a consistent-hashing route) is only reachable there")
	base := mon.Scratch()
	bin := filepath.Join(base, "relay.bin")
	sh, _ := mon.Shard()
	build := exec.Command("go", "build", "-race", "-tags", "verif", "-modfile="+os.Getenv("VERIF_MODFILE"), "-overlay="+os.Getenv("VERIF_OVERLAY"), "-o", bin, "github.com/grafana/carbon-relay-ng/cmd/carbon-relay-ng")
	build.Dir = filepath.Join(os.Getenv("VERIF_DIR"), "harness")
	if out, err := build.CombinedOutput(); err != nil {
		fmt.Println(string(out))
		res.Floor("relay_binary_built", 0, 1)
		res.Write()
		return
	}
	n := mon.N(40, 600)
	ran := 0
	for i := 0; i < n; i++ {
		if !mon.Mine(i) {
			continue
		}
		if o := os.Getenv("VERIF_ONLY"); o != "" && o != fmt.Sprint(i) {
			continue
		}
		runChild(res, bin, i, base)
		ran++
	}
	if sh == 0 {
		// AMQP
		res.LogCase("amqp in-process child")
		cmd := exec.Command(os.Args[0])
		cmd.Env = append(os.Environ(), "VERIF_CHILD=amqp")
		out, err := cmd.CombinedOutput()
		if !bytes.Contains(out, []byte("AMQP-CHILD-OK")) {
			sig, excerpt := deathSig(string(out), err)
			res.Violate("amqp-"+sig, "feeding AMQP message bodies through the real consume loop killed the process", map[string]interface{}{"output": excerpt})
		} else {
			res.Count("amqp_bodies", mon.N(3000, 100000))
		}
		res.Sample(map[string]interface{}{"admin_command_examples": []string{adminCmd(mon.NewRng(1, 2, 3), &state{}), adminCmd(mon.NewRng(1, 2, 4), &state{}), adminCmd(mon.NewRng(1, 2, 9), &state{})}})
	}
	res.Set("config_rejection_reasons", rejections)
	res.Floor("children", ran, n)
	st, _ := res.Extra["configs_started"].(int)
	res.Floor("configs_started", st, n/6)
	res.Write()
}
