// C12 — input framing is independent of how the network chops the stream.
//
// Oracle: oracle.Split (lines by '\n', one trailing '\r' removed, final
// unterminated line included, empty lines kept). The sequence of
// Dispatcher.Dispatch arguments (copied at call time) produced by the real input
// code must equal Split(stream) — for a read that fails with a timeout after k
// bytes, Split(stream[:k]).
//
// Four observation points, all running the repo's own code:
//
//	plain  input.NewPlain(capture).Handle on a chunking io.Reader: every single cut,
//	       every pair of cuts, 1-byte reads, (n>0, io.EOF), (n>0, timeout), (0, timeout),
//	       one (0, nil) read, for streams <= 48 B; random segmentations of carbon-like
//	       streams (<= 6 KB) and of streams up to 300 KB with lines at the scanner limit
//	tcp    the real input.Listener (TimeoutConn, acceptTcpConn, handleConn) over loopback
//	       TCP, TCP_NODELAY, paced writes; and a listener with a short read timeout for
//	       writers that stall after k bytes (k is taken from a counting reader between
//	       the TimeoutConn and the handler: only the reader side knows what had arrived
//	       when the deadline struck)
//	udp    datagrams with 0-200 lines through the same listener (consumeUdp, handleData)
//	amqp   deliveries through the real Amqp.start/consumeAMQP with a mock connector
//	       (accessor overlay input/zz_verif_amqp.go)
//
// Supported limits (measured by the "limits" phase and written to the evidence):
// plain/tcp/udp: a line whose length including its terminator is <= 65536 bytes
// (65535+"\n", 65534+"\r\n", unterminated final line 65535); amqp: <= 4096 bytes
// including the terminator (4095+"\n", 4094+"\r\n", unterminated 4096).
package main

import (
	"bytes"
	"fmt"
	"io"
	"net"
	"os"
	"runtime"
	"strconv"
	"sync"
	"time"

	"github.com/grafana/carbon-relay-ng/input"
	"github.com/streadway/amqp"

	"verifharness/mon"
	"verifharness/oracle"
)

// stallTimeout is the read timeout of the listener used for stalled writers.
// The number of bytes the relay had received when the timeout struck is taken
// from the reader side (countingReader), never inferred from the clock.
const stallTimeout = 150 * time.Millisecond

const (
	plainLimit = 65536 // line length including terminator the Scanner-based inputs support
	amqpLimit  = 4096
)

// ---------------------------------------------------------------- chunk reader

type timeoutErr struct{}

func (timeoutErr) Error() string   { return "verif: i/o timeout" }
func (timeoutErr) Timeout() bool   { return true }
func (timeoutErr) Temporary() bool { return true }

var _ net.Error = timeoutErr{}

// plan says how the stream is handed to the reader's caller.
type plan struct {
	Class    string `json:"class"`
	Cuts     []int  `json:"cuts,omitempty"`      // absolute offsets at which a read ends
	Sizes    []int  `json:"sizes,omitempty"`     // or: cyclic list of read sizes
	WithData bool   `json:"err_with_data"`       // the terminal error comes together with the last bytes
	FailAt   int    `json:"fail_after_bytes"`    // -1: io.EOF at the end; k: timeout error after k bytes
	OSErr    bool   `json:"os_deadline_err"`     // timeout error is os.ErrDeadlineExceeded instead of the harness' net.Error
	ZeroAt   int    `json:"zero_read_at_offset"` // -1, or an offset at which one (0, nil) read happens
}

type chunkReader struct {
	data     []byte
	p        plan
	pos      int
	ci       int
	si       int
	zeroDone bool
	reads    int
	after    int // reads after the terminal error was returned
}

func (c *chunkReader) Read(p []byte) (int, error) {
	c.reads++
	limit := len(c.data)
	var final error = io.EOF
	if c.p.FailAt >= 0 {
		limit = c.p.FailAt
		if c.p.OSErr {
			final = os.ErrDeadlineExceeded
		} else {
			final = timeoutErr{}
		}
	}
	if c.pos >= limit {
		c.after++
		return 0, final
	}
	if len(p) == 0 {
		return 0, nil
	}
	if c.p.ZeroAt == c.pos && !c.zeroDone {
		c.zeroDone = true
		return 0, nil
	}
	end := limit
	if c.p.Sizes != nil {
		sz := c.p.Sizes[c.si%len(c.p.Sizes)]
		c.si++
		if sz < 1 {
			sz = 1
		}
		if c.pos+sz < end {
			end = c.pos + sz
		}
	} else {
		for c.ci < len(c.p.Cuts) && c.p.Cuts[c.ci] <= c.pos {
			c.ci++
		}
		if c.ci < len(c.p.Cuts) && c.p.Cuts[c.ci] < end {
			end = c.p.Cuts[c.ci]
		}
	}
	n := copy(p, c.data[c.pos:end])
	c.pos += n
	if c.pos == limit && c.p.WithData {
		return n, final
	}
	return n, nil
}

// ---------------------------------------------------------------- comparison

func trunc(b []byte) string {
	if len(b) <= 160 {
		return fmt.Sprintf("%q", b)
	}
	return fmt.Sprintf("%q...(%d bytes)...%q", b[:60], len(b), b[len(b)-40:])
}

// diff classifies the first difference between what was dispatched and the oracle.
func diff(got, want [][]byte) (kind string, idx int) {
	n := len(got)
	if len(want) < n {
		n = len(want)
	}
	for i := 0; i < n; i++ {
		g, w := got[i], want[i]
		if bytes.Equal(g, w) {
			continue
		}
		switch {
		case len(g) == len(w)+1 && g[len(g)-1] == '\r' && bytes.Equal(g[:len(w)], w):
			if i == len(want)-1 {
				return "final-cr-kept", i
			}
			return "cr-kept", i
		case len(g) < len(w) && bytes.HasPrefix(w, g):
			return "fragmented", i
		case len(g) > len(w) && bytes.HasPrefix(g, w):
			return "merged", i
		default:
			return "bytes", i
		}
	}
	switch {
	case len(got) == len(want):
		return "", -1
	case len(got) < len(want):
		if len(got) == len(want)-1 {
			return "final-line-lost", len(got)
		}
		return "lines-lost", len(got)
	default:
		return "extra-line", len(want)
	}
}

type checker struct {
	res *mon.Result
}

// judge compares and reports; returns true when equal.
func (c *checker) judge(transport string, got, want [][]byte, witness func() map[string]interface{}) bool {
	kind, idx := diff(got, want)
	if kind == "" {
		return true
	}
	w := witness()
	w["dispatched_lines"] = len(got)
	w["oracle_lines"] = len(want)
	w["first_difference_at_line"] = idx
	if idx < len(got) {
		w["dispatched"] = trunc(got[idx])
	}
	if idx < len(want) {
		w["oracle"] = trunc(want[idx])
	}
	if idx > 0 && idx-1 < len(want) {
		w["previous_line"] = trunc(want[idx-1])
	}
	msg := fmt.Sprintf("%s input: Dispatch sequence differs from the newline-delimited lines of the stream at line %d (%s): %d lines dispatched, %d expected", transport, idx, kind, len(got), len(want))
	c.res.Violate(transport+":"+kind, msg, w)
	return false
}

func streamWitness(stream []byte) interface{} {
	if len(stream) <= 400 {
		return fmt.Sprintf("%q", stream)
	}
	return map[string]interface{}{"length": len(stream), "head": fmt.Sprintf("%q", stream[:200]), "tail": fmt.Sprintf("%q", stream[len(stream)-100:])}
}

// ---------------------------------------------------------------- generators

var curated = []string{
	"", "\n", "\r", "\r\n", "a", "a\n", "a\r\n", "a\r", "a\n\n", "\n\n", "\r\r\n", "a\rb\n", "a\r\r\n", "\na",
	"\n\r\n", "\r\n\r\n", "ab\r", "x\n\r\ny", "a b 1\nc d 2", "a.b 1 2\r\nc.d 3 4\r\n", "a.b 1 2\nc.d 3 4", "a.b 1 2\n\nc.d 3 4\n",
	"a.b 1 2\r", "a.b 1 2\r\n\r", " \n \r\n ", "\x00\n\xff\r\n\x80",
}

func genSmall(r *mon.Rng, maxLen int) []byte {
	n := r.Range(0, maxLen)
	if r.Chance(4, 5) {
		n = r.Range(maxLen*5/6, maxLen)
	}
	b := make([]byte, n)
	for i := range b {
		x := r.Intn(100)
		switch {
		case x < 18:
			b[i] = '\n'
		case x < 28:
			b[i] = '\r'
		case x < 36:
			b[i] = ' '
		case x < 42:
			b[i] = '.'
		case x < 50:
			b[i] = byte('0' + r.Intn(10))
		default:
			b[i] = byte('a' + r.Intn(4))
		}
	}
	// make "\r\n" pairs common
	for i := 0; i+1 < len(b); i++ {
		if b[i] == '\r' && r.Chance(1, 2) {
			b[i+1] = '\n'
		}
	}
	return b
}

func letters(r *mon.Rng, n int) []byte {
	b := make([]byte, n)
	x := r.U64()
	for i := range b {
		x = x*6364136223846793005 + 1442695040888963407
		b[i] = byte('a' + (x>>33)%26)
	}
	return b
}

func carbonLine(r *mon.Rng, id int) []byte {
	var b bytes.Buffer
	segs := r.Range(1, 5)
	for s := 0; s < segs; s++ {
		if s > 0 {
			b.WriteByte('.')
		}
		b.Write(letters(r, r.Range(1, 9)))
	}
	fmt.Fprintf(&b, ".id%d", id)
	sep := " "
	if r.Chance(1, 8) {
		sep = "\t"
	}
	if r.Chance(1, 10) {
		sep = "  "
	}
	fmt.Fprintf(&b, "%s%s%s%d", sep, r.Pick([]string{"1", "0.5", "1e3", "-7", "42.000", "0x1p-2", "+5"}), sep, 1500000000+r.Intn(1000000))
	if r.Chance(1, 30) { // a lone CR inside a line is data
		p := r.Intn(b.Len())
		bb := b.Bytes()
		bb[p] = '\r'
	}
	return b.Bytes()
}

func terminator(r *mon.Rng) string {
	x := r.Intn(100)
	switch {
	case x < 68:
		return "\n"
	case x < 90:
		return "\r\n"
	case x < 94:
		return "\r\r\n"
	case x < 97:
		return "\n\n" // followed by an empty line
	default:
		return "\n\r\n" // followed by an empty line that has a CR
	}
}

// genCarbon builds a stream of nLines carbon-like lines; maxLine bounds the line
// length including its terminator.
func genCarbon(r *mon.Rng, nLines int, maxBytes int) []byte {
	var b bytes.Buffer
	for i := 0; i < nLines; i++ {
		var l []byte
		if r.Chance(1, 25) {
			l = nil // empty line
		} else {
			l = carbonLine(r, i)
		}
		t := terminator(r)
		last := i == nLines-1
		if last && r.Chance(1, 3) {
			t = "" // final unterminated line
			if r.Chance(1, 4) {
				t = "\r"
			}
		}
		if b.Len()+len(l)+len(t) > maxBytes {
			break
		}
		b.Write(l)
		b.WriteString(t)
	}
	return b.Bytes()
}

// genLong builds a stream up to maxTotal bytes that contains lines at and just
// below `limit` (length including terminator), around 4096, and short ones.
func genLong(r *mon.Rng, maxTotal, limit int, unterminatedMax int) []byte {
	var b bytes.Buffer
	target := r.Range(limit/2, maxTotal)
	for b.Len() < target {
		room := maxTotal - b.Len()
		if room < 4 {
			break
		}
		t := "\n"
		if r.Chance(1, 3) {
			t = "\r\n"
		}
		var total int // including terminator
		switch x := r.Intn(10); {
		case x < 3:
			total = limit - r.Intn(3) // at the limit
		case x < 4:
			total = limit/2 + r.Range(-2, 2)
		case x < 6:
			total = 4096 + r.Range(-3, 3)
		case x < 7:
			total = r.Range(len(t), 3)
		default:
			total = r.Range(10, 90)
		}
		if total > limit {
			total = limit
		}
		if total > room {
			total = room
		}
		if total < len(t) {
			total = len(t)
		}
		b.Write(letters(r, total-len(t)))
		b.WriteString(t)
	}
	if r.Chance(1, 3) {
		room := maxTotal - b.Len()
		n := r.PickInt([]int{1, 50, min(4096, unterminatedMax), unterminatedMax - 1, unterminatedMax})
		if n > room {
			n = room
		}
		if n > 0 {
			l := letters(r, n)
			if r.Chance(1, 4) {
				l[n-1] = '\r'
			}
			b.Write(l)
		}
	}
	return b.Bytes()
}

func randomSizes(r *mon.Rng, streamLen int) []int {
	n := r.Range(1, 12)
	s := make([]int, n)
	mode := r.Intn(6)
	for i := range s {
		switch mode {
		case 0:
			s[i] = r.Range(1, 16)
		case 1:
			s[i] = r.Range(1, 200)
		case 2:
			s[i] = r.PickInt([]int{4095, 4096, 4097, 1, 2, 8192})
		case 3:
			s[i] = r.PickInt([]int{65535, 65536, 65537, 1, 32768, 61440})
		case 4:
			s[i] = r.Range(1, 3)
		default:
			s[i] = r.Range(1, streamLen+1)
		}
	}
	return s
}

// longSizes: read sizes for the 300 KB streams (mostly around the scanner's
// buffer sizes, at most one tiny read per cycle so a run stays cheap).
func longSizes(r *mon.Rng) []int {
	n := r.Range(2, 8)
	s := make([]int, n)
	for i := range s {
		if r.Bool() {
			s[i] = r.PickInt([]int{4095, 4096, 4097, 8192, 16384, 32768, 65535, 65536, 65537, 61440})
		} else {
			s[i] = r.Range(1000, 70000)
		}
	}
	if r.Bool() {
		s[r.Intn(n)] = r.Range(1, 3)
	}
	return s
}

// ---------------------------------------------------------------- phase: plain handler on a chunking reader

type plainStats struct {
	segs, nontrivial, lines int
}

func runPlain(stream []byte, p plan) ([][]byte, error, *chunkReader) {
	cd := &mon.CaptureDispatcher{}
	rd := &chunkReader{data: stream, p: p}
	err := input.NewPlain(cd).Handle(rd)
	lines, _ := cd.Snapshot()
	return lines, err, rd
}

// insideLine tells whether a read boundary at offset c falls inside a line
// (or between "\r" and "\n"), i.e. the reader has to carry a partial token.
func insideLine(stream []byte, c int) bool {
	return c > 0 && c < len(stream) && stream[c-1] != '\n'
}

func (c *checker) plainOne(kind string, idx int, stream []byte, wantCache map[int][][]byte, p plan, st *plainStats) {
	k := len(stream)
	if p.FailAt >= 0 {
		k = p.FailAt
	}
	want, ok := wantCache[k]
	if !ok {
		want = oracle.Split(stream[:k])
		wantCache[k] = want
	}
	got, herr, rd := runPlain(stream, p)
	st.segs++
	st.lines += len(got)
	nt := false
	for _, cut := range p.Cuts {
		if cut < k && insideLine(stream, cut) {
			nt = true
			break
		}
	}
	if p.Sizes != nil && len(want) > 0 {
		nt = true
	}
	if nt {
		st.nontrivial++
		c.res.NonTrivial(fmt.Sprintf("%s/%d/%s", kind, idx, p.Class))
	}
	c.judge("plain", got, want, func() map[string]interface{} {
		return map[string]interface{}{"generator": kind, "stream_index": idx, "stream": streamWitness(stream), "segmentation": p,
			"handler_returned": fmt.Sprint(herr), "reads": rd.reads}
	})
	if rd.after > 3 {
		c.res.Violate("plain:reads-after-error", fmt.Sprintf("the handler kept reading (%d reads) after the reader returned its terminal error", rd.after),
			map[string]interface{}{"generator": kind, "stream_index": idx, "stream": streamWitness(stream), "segmentation": p})
	}
}

// exhaustive enumerates every single cut, every pair of cuts, 1-byte reads,
// error-with-data and timeout variants for one small stream.
func (c *checker) exhaustive(kind string, idx int, s []byte, r *mon.Rng, st *plainStats) {
	L := len(s)
	cache := map[int][][]byte{}
	none := func(class string) plan { return plan{Class: class, FailAt: -1, ZeroAt: -1} }
	for _, wd := range []bool{false, true} {
		p := none("whole")
		p.WithData = wd
		c.plainOne(kind, idx, s, cache, p, st)
	}
	for c1 := 1; c1 < L; c1++ {
		for _, wd := range []bool{false, true} {
			p := none("single")
			if wd {
				p.Class = "single+eofdata"
			}
			p.Cuts = []int{c1}
			p.WithData = wd
			c.plainOne(kind, idx, s, cache, p, st)
		}
		p := none("single+zeroread")
		p.Cuts = []int{c1}
		p.ZeroAt = c1
		c.plainOne(kind, idx, s, cache, p, st)
	}
	for c1 := 1; c1 < L; c1++ {
		for c2 := c1 + 1; c2 < L; c2++ {
			p := none("pair")
			p.Cuts = []int{c1, c2}
			p.WithData = (c1+c2)&1 == 1
			c.plainOne(kind, idx, s, cache, p, st)
		}
	}
	if L > 0 {
		all := make([]int, 0, L)
		for i := 1; i < L; i++ {
			all = append(all, i)
		}
		for _, wd := range []bool{false, true} {
			p := none("onebyte")
			p.Cuts = all
			p.WithData = wd
			c.plainOne(kind, idx, s, cache, p, st)
		}
	}
	// a read that fails with a timeout after k bytes: (n>0, timeout) and (0, timeout)
	for k := 0; k <= L; k++ {
		for _, wd := range []bool{true, false} {
			if wd && k == 0 {
				continue
			}
			p := plan{Class: "timeout+data", FailAt: k, ZeroAt: -1, WithData: wd, OSErr: (k+idx)&1 == 1}
			if !wd {
				p.Class = "timeout"
			}
			if k > 1 {
				p.Cuts = []int{r.Range(1, k-1)}
			}
			c.plainOne(kind, idx, s, cache, p, st)
		}
	}
}

func (c *checker) plainPhase() {
	res := c.res
	var st plainStats
	seed := mon.Seed()
	caseNo := 0
	// 1. curated small streams (always all of them, shared out over the shards)
	for i, s := range curated {
		if !mon.Mine(caseNo) {
			caseNo++
			continue
		}
		caseNo++
		res.LogCase("plain curated %d %q", i, s)
		c.exhaustive("curated", i, []byte(s), mon.NewRng(seed, 1201, uint64(i)), &st)
		res.Eval(1)
	}
	tSub := time.Now()
	sub := func(name string) {
		fmt.Printf("  plain/%s: %.1fs, %d segmentations so far\n", name, time.Since(tSub).Seconds(), st.segs)
		tSub = time.Now()
	}
	sub("curated")
	// 2. random small streams, exhaustive
	nSmall := scale(mon.N(40, 2800))
	for i := 0; i < nSmall; i++ {
		if !mon.Mine(caseNo) {
			caseNo++
			continue
		}
		caseNo++
		r := mon.NewRng(seed, 1202, uint64(i))
		s := genSmall(r, 48)
		res.LogCase("plain small %d %q", i, s)
		c.exhaustive("small", i, s, r, &st)
		res.Eval(1)
		if i < 2 {
			res.Sample(map[string]interface{}{"phase": "plain/exhaustive", "stream": fmt.Sprintf("%q", s), "oracle_lines": len(oracle.Split(s))})
		}
	}
	sub("small")
	// 3. carbon-like streams up to 6 KB, random segmentations
	nMed := scale(mon.N(500, 12000))
	perMed := mon.N(10, 25)
	for i := 0; i < nMed; i++ {
		if !mon.Mine(caseNo) {
			caseNo++
			continue
		}
		caseNo++
		r := mon.NewRng(seed, 1203, uint64(i))
		s := genCarbon(r, r.Range(1, 80), 6000)
		res.LogCase("plain carbon %d len=%d", i, len(s))
		cache := map[int][][]byte{}
		for j := 0; j < perMed; j++ {
			p := plan{Class: "random", FailAt: -1, ZeroAt: -1, WithData: r.Bool()}
			switch r.Intn(4) {
			case 0:
				p.Sizes = []int{r.Range(1, 7)}
			case 1:
				p.Sizes = randomSizes(r, len(s))
			default:
				n := r.Range(1, 10)
				for q := 0; q < n && len(s) > 1; q++ {
					p.Cuts = append(p.Cuts, r.Range(1, len(s)-1))
				}
				sortInts(p.Cuts)
			}
			if r.Chance(1, 5) && len(s) > 0 {
				p.Class = "random+timeout"
				p.FailAt = r.Range(0, len(s))
				p.OSErr = r.Bool()
			}
			c.plainOne("carbon", i, s, cache, p, &st)
		}
		res.Eval(1)
		if i < 1 {
			res.Sample(map[string]interface{}{"phase": "plain/carbon", "stream_bytes": len(s), "oracle_lines": len(oracle.Split(s)), "head": fmt.Sprintf("%q", s[:min(len(s), 120)])})
		}
	}
	sub("carbon")
	// 4. streams up to 300 KB with lines at the limit
	nLong := scale(mon.N(30, 800))
	perLong := mon.N(6, 10)
	longLines := 0
	for i := 0; i < nLong; i++ {
		if !mon.Mine(caseNo) {
			caseNo++
			continue
		}
		caseNo++
		r := mon.NewRng(seed, 1204, uint64(i))
		s := genLong(r, 300*1024, plainLimit, plainLimit-1)
		res.LogCase("plain long %d len=%d", i, len(s))
		cache := map[int][][]byte{}
		want := oracle.Split(s)
		for _, w := range want {
			if len(w) >= plainLimit-3 {
				longLines++
			}
		}
		for j := 0; j < perLong; j++ {
			p := plan{Class: "long-random", FailAt: -1, ZeroAt: -1, WithData: r.Bool()}
			if j%3 == 2 {
				// cuts around the terminators of the long lines
				start := 0
				for q := 0; q < len(s); q++ {
					if s[q] != '\n' {
						continue
					}
					if q-start > 4000 {
						if cut := q + r.Range(-1, 2); cut > 0 && cut < len(s) {
							p.Cuts = append(p.Cuts, cut)
						}
					}
					start = q + 1
				}
				sortInts(p.Cuts)
				p.Class = "long-boundary"
			} else {
				p.Sizes = longSizes(r)
			}
			if r.Chance(1, 8) {
				p.FailAt = r.Range(0, len(s))
				p.Class += "+timeout"
			}
			c.plainOne("long", i, s, cache, p, &st)
		}
		res.Eval(1)
	}
	sub("long")
	res.Count("plain_segmentations", st.segs)
	res.Count("plain_segmentations_cut_inside_a_line", st.nontrivial)
	res.Count("plain_lines_dispatched", st.lines)
	res.Count("plain_lines_at_64k_limit", longLines)
	res.Floor("plain_segmentations", st.segs, mon.N(40000, 3000000)*scalePct()/100)
}

func sortInts(a []int) {
	for i := 1; i < len(a); i++ {
		for j := i; j > 0 && a[j-1] > a[j]; j-- {
			a[j-1], a[j] = a[j], a[j-1]
		}
	}
}

func min(a, b int) int {
	if a < b {
		return a
	}
	return b
}

// ---------------------------------------------------------------- phase: limits

// limits measures where "processed whole" stops and judges the lengths inside
// the supported limit.
func (c *checker) limitsPhase() {
	if !mon.Mine(0) {
		return
	}
	res := c.res
	r := mon.NewRng(mon.Seed(), 1210, 0)
	measured := map[string]int{}
	for _, term := range []string{"\n", "\r\n", ""} {
		name := map[string]string{"\n": "lf", "\r\n": "crlf", "": "unterminated"}[term]
		for n := plainLimit - 4; n <= plainLimit+2; n++ {
			okAll := true
			for variant := 0; variant < 4; variant++ {
				var s []byte
				if variant&1 == 1 {
					s = append(s, "short.line 1 2\n"...)
				}
				s = append(s, letters(r, n)...)
				s = append(s, term...)
				if term != "" {
					s = append(s, "after.long 3 4\n"...)
				}
				p := plan{Class: "limit", FailAt: -1, ZeroAt: -1}
				if variant&2 == 2 {
					p.Sizes = []int{4096}
				}
				got, _, _ := runPlain(s, p)
				want := oracle.Split(s)
				within := n+len(term) <= plainLimit && !(term == "" && n > plainLimit-1)
				if within {
					res.Count("limit_lines_judged", 1)
					c.judge("plain", got, want, func() map[string]interface{} {
						return map[string]interface{}{"generator": "limits", "line_content_bytes": n, "terminator": fmt.Sprintf("%q", term), "segmentation": p}
					})
				}
				if k, _ := diff(got, want); k != "" {
					okAll = false
				}
			}
			if okAll && n > measured["plain_"+name] {
				measured["plain_"+name] = n
			}
		}
	}
	// AMQP reader
	for _, term := range []string{"\n", "\r\n", ""} {
		name := map[string]string{"\n": "lf", "\r\n": "crlf", "": "unterminated"}[term]
		for n := amqpLimit - 4; n <= amqpLimit+2; n++ {
			var s []byte
			s = append(s, "short.line 1 2\n"...)
			s = append(s, letters(r, n)...)
			s = append(s, term...)
			if term != "" {
				s = append(s, "after.long 3 4\n"...)
			}
			got := amqpRun([][]byte{s})
			want := oracle.Split(s)
			if n+len(term) <= amqpLimit {
				res.Count("limit_lines_judged", 1)
				c.judge("amqp", got, want, func() map[string]interface{} {
					return map[string]interface{}{"generator": "limits", "line_content_bytes": n, "terminator": fmt.Sprintf("%q", term)}
				})
			}
			if k, _ := diff(got, want); k == "" && n > measured["amqp_"+name] {
				measured["amqp_"+name] = n
			}
		}
	}
	res.Set("measured_max_line_content_bytes_processed_whole", measured)
}

// ---------------------------------------------------------------- phase: real listener (tcp + udp)

type connDone struct {
	remote string
	lines  [][]byte
	err    error
	read   int // bytes the handler's Read calls returned
}

// countingReader sits between the real (Timeout)Conn and the real Plain handler:
// only the reader side knows how many bytes had arrived when a read timed out.
type countingReader struct {
	r io.Reader
	n int
}

func (c *countingReader) Read(p []byte) (int, error) {
	n, err := c.r.Read(p)
	c.n += n
	return n, err
}

// perConnPlain is the Handler given to the real Listener: every connection /
// datagram gets its own real input.Plain feeding its own capture dispatcher, and
// the end of Handle is signalled (so no verdict depends on waiting "long enough").
type perConnPlain struct {
	mu   sync.Mutex
	cond *sync.Cond
	tcp  map[string]connDone
	udp  chan connDone
}

func firstLine(l [][]byte) []byte {
	if len(l) == 0 {
		return nil
	}
	return l[0]
}

func newPerConn() *perConnPlain {
	h := &perConnPlain{tcp: map[string]connDone{}, udp: make(chan connDone, 64)}
	h.cond = sync.NewCond(&h.mu)
	return h
}

func (h *perConnPlain) Kind() string { return "plain" }

func (h *perConnPlain) Handle(r io.Reader) error {
	cd := &mon.CaptureDispatcher{}
	cr := &countingReader{r: r}
	err := input.NewPlain(cd).Handle(cr)
	lines, _ := cd.Snapshot()
	if c, ok := r.(net.Conn); ok {
		d := connDone{c.RemoteAddr().String(), lines, err, cr.n}
		h.mu.Lock()
		h.tcp[d.remote] = d
		h.cond.Broadcast()
		h.mu.Unlock()
	} else {
		h.udp <- connDone{"", lines, err, cr.n}
	}
	return err
}

// waitTCP waits for the handler of the connection from `remote` to return.
// The watchdog only turns a hang into "inconclusive".
func (h *perConnPlain) waitTCP(remote string, watchdog time.Duration) (connDone, bool) {
	timer := time.AfterFunc(watchdog, func() {
		h.mu.Lock()
		h.cond.Broadcast()
		h.mu.Unlock()
	})
	defer timer.Stop()
	deadline := time.Now().Add(watchdog)
	h.mu.Lock()
	defer h.mu.Unlock()
	for {
		if d, ok := h.tcp[remote]; ok {
			delete(h.tcp, remote)
			return d, true
		}
		if time.Now().After(deadline) {
			return connDone{}, false
		}
		h.cond.Wait()
	}
}

type tcpCase struct {
	idx    int
	stream []byte
	writes []int // sizes
	pace   []int // per write: 0 none, 1 gosched, >1 sleep that many microseconds
	half   bool  // half-close (CloseWrite) instead of Close
}

func genTCPCase(seed uint64, idx int) tcpCase {
	r := mon.NewRng(seed, 1220, uint64(idx))
	tc := tcpCase{idx: idx, half: r.Chance(1, 3)}
	switch x := r.Intn(20); {
	case x == 0:
		tc.stream = genLong(r, 300*1024, plainLimit, plainLimit-1)
	case x < 4:
		tc.stream = genSmall(r, 64)
	default:
		tc.stream = genCarbon(r, r.Range(1, 300), 30000)
	}
	L := len(tc.stream)
	// at most ~40 writes that are followed by a sleep, so a case stays in the millisecond range
	maxWrites := r.Range(1, 40)
	pos := 0
	for pos < L {
		var sz int
		left := L - pos
		if len(tc.writes) >= maxWrites-1 {
			sz = left
		} else {
			switch r.Intn(5) {
			case 0:
				sz = r.Range(1, 3)
			case 1:
				sz = r.Range(1, 40)
			case 2:
				sz = r.Range(1, 1500)
			case 3:
				sz = r.PickInt([]int{1448, 4096, 65536, 16384})
			default:
				sz = r.Range(1, left)
			}
		}
		if sz > left {
			sz = left
		}
		tc.writes = append(tc.writes, sz)
		switch r.Intn(6) {
		case 0, 1:
			tc.pace = append(tc.pace, 0)
		case 2, 3:
			tc.pace = append(tc.pace, 1)
		default:
			tc.pace = append(tc.pace, r.Range(20, 300))
		}
		pos += sz
	}
	return tc
}

func (c *checker) runTCPCase(h *perConnPlain, addr *net.TCPAddr, tc tcpCase) (lines int, nontrivial bool) {
	res := c.res
	conn, err := net.DialTCP("tcp", nil, addr)
	if err != nil {
		res.Inconclusive("tcp: cannot connect to the listener: " + err.Error())
		return 0, false
	}
	conn.SetNoDelay(true)
	local := conn.LocalAddr().String()
	pos := 0
	for i, sz := range tc.writes {
		if _, err := conn.Write(tc.stream[pos : pos+sz]); err != nil {
			res.Inconclusive("tcp: write failed: " + err.Error())
			conn.Close()
			return 0, false
		}
		pos += sz
		if pos < len(tc.stream) && insideLine(tc.stream, pos) {
			nontrivial = true
		}
		switch p := tc.pace[i]; {
		case p == 1:
			runtime.Gosched()
		case p > 1:
			time.Sleep(time.Duration(p) * time.Microsecond)
		}
	}
	if tc.half {
		conn.CloseWrite()
	} else {
		conn.Close()
	}
	d, ok := h.waitTCP(local, 120*time.Second)
	if tc.half {
		conn.Close()
	}
	if !ok {
		res.Inconclusive(fmt.Sprintf("tcp case %d: handler did not return within the watchdog", tc.idx))
		return 0, false
	}
	if d.err == nil && d.read != len(tc.stream) {
		res.Violate("tcp:bytes-unread", fmt.Sprintf("the handler returned without error after reading %d of the %d bytes that were sent before the connection was closed", d.read, len(tc.stream)),
			map[string]interface{}{"tcp_case": tc.idx, "stream": streamWitness(tc.stream), "writes": tc.writes})
	}
	want := oracle.Split(tc.stream[:min(d.read, len(tc.stream))])
	c.judge("tcp", d.lines, want, func() map[string]interface{} {
		return map[string]interface{}{"tcp_case": tc.idx, "stream": streamWitness(tc.stream), "writes": tc.writes, "pace": tc.pace, "half_close": tc.half, "handler_returned": fmt.Sprint(d.err)}
	})
	return len(d.lines), nontrivial
}

func (c *checker) listenerPhase() {
	res := c.res
	seed := mon.Seed()
	h := newPerConn()
	l := input.NewListener("127.0.0.1:0", 120*time.Second, h)
	if err := l.Start(); err != nil {
		panic("listener: " + err.Error())
	}
	ta, ua := l.VerifListenerAddrs()
	taddr := ta.(*net.TCPAddr)
	uaddr := ua.(*net.UDPAddr)

	tPh := time.Now()
	// ---- tcp, paced writes
	nTCP := scale(mon.N(500, 12000))
	var mu sync.Mutex
	conns, ntConns, tlines := 0, 0, 0
	jobs := make(chan tcpCase)
	var wg sync.WaitGroup
	for w := 0; w < 8; w++ {
		wg.Add(1)
		go func() {
			defer wg.Done()
			for tc := range jobs {
				n, nt := c.runTCPCase(h, taddr, tc)
				mu.Lock()
				conns++
				tlines += n
				if nt {
					ntConns++
				}
				mu.Unlock()
				if nt {
					res.NonTrivial(fmt.Sprintf("tcp/%d", tc.idx))
				}
				res.Eval(1)
			}
		}()
	}
	for i := 0; i < nTCP; i++ {
		if !mon.Mine(i) {
			continue
		}
		tc := genTCPCase(seed, i)
		res.LogCase("tcp %d len=%d writes=%d", i, len(tc.stream), len(tc.writes))
		if i < 1 {
			res.Sample(map[string]interface{}{"phase": "tcp", "stream_bytes": len(tc.stream), "writes": tc.writes, "pace_us": tc.pace})
		}
		jobs <- tc
	}
	close(jobs)
	wg.Wait()
	fmt.Printf("  listener/tcp: %.1fs\n", time.Since(tPh).Seconds())
	tPh = time.Now()
	res.Count("tcp_connections", conns)
	res.Count("tcp_connections_written_with_a_cut_inside_a_line", ntConns)
	res.Count("tcp_lines_dispatched", tlines)
	res.Floor("tcp_connections", conns, mon.N(450, 11000)*scalePct()/100)

	// ---- udp
	nUDP := scale(mon.N(800, 25000))
	uc, err := net.DialUDP("udp", nil, uaddr)
	if err != nil {
		panic(err)
	}
	dgrams, ulines, lost := 0, 0, 0
	for i := 0; i < nUDP; i++ {
		if !mon.Mine(i) {
			continue
		}
		r := mon.NewRng(seed, 1230, uint64(i))
		var s []byte
		switch x := r.Intn(40); {
		case x == 0:
			s = genLong(r, 65507, plainLimit, 65507)
		case x == 1:
			s = nil
		case x < 6:
			s = genSmall(r, 48)
		default:
			s = genCarbon(r, r.Range(1, 200), 65507)
		}
		res.LogCase("udp %d len=%d", i, len(s))
		if _, err := uc.Write(s); err != nil {
			res.Inconclusive("udp: write failed: " + err.Error())
			continue
		}
		select {
		case d := <-h.udp:
			dgrams++
			ulines += len(d.lines)
			want := oracle.Split(s)
			if len(want) > 1 {
				res.NonTrivial(fmt.Sprintf("udp/%d", i))
			}
			c.judge("udp", d.lines, want, func() map[string]interface{} {
				return map[string]interface{}{"udp_case": i, "datagram": streamWitness(s), "handler_returned": fmt.Sprint(d.err)}
			})
		case <-time.After(20 * time.Second):
			lost++ // a datagram may legitimately be dropped by the kernel; nothing is concluded from it
		}
		res.Eval(1)
		if lost > 0 {
			break // results could no longer be attributed to datagrams
		}
	}
	// ---- udp bursts: several datagrams back to back (a handler that is still busy with one datagram while
	// the next ones arrive must not mix, lose-and-duplicate or alter them). Every datagram is tagged, so a
	// result identifies its datagram; a datagram that never shows up may have been dropped by the kernel
	// (counted, nothing concluded), a datagram that shows up twice or altered is a violation.
	nBurst := scale(mon.N(60, 1500))
	burstDgrams, burstLost := 0, 0
	for bi := 0; bi < nBurst && lost == 0; bi++ {
		if !mon.Mine(bi) {
			continue
		}
		r := mon.NewRng(seed, 1235, uint64(bi))
		nb := r.Range(3, 12)
		want := map[string][][]byte{}
		var order []string
		res.LogCase("udp-burst %d datagrams=%d", bi, nb)
		for j := 0; j < nb; j++ {
			tag := fmt.Sprintf("ub%d_%d", bi, j)
			var b bytes.Buffer
			nl := r.Range(1, 150)
			for x := 0; x < nl; x++ {
				fmt.Fprintf(&b, "%s.m%d %d %d", tag, x, x, 1600000000+x)
				if x < nl-1 || r.Bool() {
					if r.Chance(1, 6) {
						b.WriteString("\r\n")
					} else {
						b.WriteByte('\n')
					}
				}
			}
			want[tag] = oracle.Split(b.Bytes())
			order = append(order, tag)
			uc.Write(b.Bytes())
		}
		seen := map[string]int{}
		idle := time.NewTimer(3 * time.Second)
	collect:
		for got := 0; got < nb; {
			select {
			case d := <-h.udp:
				got++
				if !idle.Stop() {
					select {
					case <-idle.C:
					default:
					}
				}
				idle.Reset(3 * time.Second)
				tag := ""
				if len(d.lines) > 0 {
					if k := bytes.IndexByte(d.lines[0], '.'); k > 0 {
						tag = string(d.lines[0][:k])
					}
				}
				w, known := want[tag]
				if !known {
					res.Violate("udp-burst:foreign", fmt.Sprintf("burst %d: a datagram was handled whose first line %.60q belongs to no datagram of the burst", bi, firstLine(d.lines)), map[string]interface{}{"burst": bi, "datagrams": nb})
					break collect
				}
				seen[tag]++
				if seen[tag] > 1 {
					res.Violate("udp-burst:duplicated", fmt.Sprintf("burst %d of %d datagrams sent back to back: datagram %s was processed twice", bi, nb, tag), map[string]interface{}{"burst": bi, "datagrams": order, "seen": seen})
					break collect
				}
				burstDgrams++
				c.judge("udp", d.lines, w, func() map[string]interface{} {
					return map[string]interface{}{"udp_burst": bi, "datagram": tag, "datagrams_in_burst": nb}
				})
			case <-idle.C:
				burstLost += nb - got
				break collect
			}
		}
		res.Eval(1)
		res.NonTrivial(fmt.Sprintf("udp-burst/%d", bi))
	}
	res.Count("udp_burst_datagrams_checked", burstDgrams)
	res.Count("udp_burst_datagrams_not_seen", burstLost)
	uc.Close()
	fmt.Printf("  listener/udp: %.1fs\n", time.Since(tPh).Seconds())
	if lost > 0 {
		res.Inconclusive(fmt.Sprintf("udp: %d datagrams never reached the handler (kernel drop or stuck handler)", lost))
	}
	res.Count("udp_datagrams", dgrams)
	res.Count("udp_lines_dispatched", ulines)
	res.Floor("udp_datagrams", dgrams, mon.N(700, 24000)*scalePct()/100)
	// results nobody collected any more (after a violation ended a burst early) must not keep the
	// handler, and with it Listener.Stop, blocked
	go func() {
		for range h.udp {
		}
	}()
	stopped := make(chan struct{})
	go func() { l.Stop(); close(stopped) }()
	select {
	case <-stopped:
	case <-time.After(30 * time.Second):
		res.Inconclusive("listener did not stop within 30s")
	}

	// ---- tcp with a read timeout: the client sends a prefix in one write and stalls
	ht := newPerConn()
	lt := input.NewListener("127.0.0.1:0", stallTimeout, ht)
	if err := lt.Start(); err != nil {
		panic("listener: " + err.Error())
	}
	ta2, _ := lt.VerifListenerAddrs()
	nTO := scale(mon.N(96, 2000))
	var wg2 sync.WaitGroup
	sem := make(chan struct{}, 24)
	stalls, stallsTimeoutSeen, stallsVoid := 0, 0, 0
	resumedAfterTimeout := 0
	for i := 0; i < nTO; i++ {
		if !mon.Mine(i) {
			continue
		}
		r := mon.NewRng(seed, 1240, uint64(i))
		s := genCarbon(r, r.Range(1, 100), 20000)
		k := r.Range(0, len(s))
		res.LogCase("tcp-timeout %d len=%d sent=%d", i, len(s), k)
		wg2.Add(1)
		sem <- struct{}{}
		go func(i int, s []byte, k int) {
			defer wg2.Done()
			defer func() { <-sem }()
			conn, err := net.DialTCP("tcp", nil, ta2.(*net.TCPAddr))
			if err != nil {
				res.Inconclusive("tcp-timeout: cannot connect: " + err.Error())
				return
			}
			defer conn.Close()
			conn.SetNoDelay(true)
			if k > 0 {
				if _, err := conn.Write(s[:k]); err != nil {
					res.Inconclusive("tcp-timeout: write failed: " + err.Error())
					return
				}
			}
			d, ok := ht.waitTCP(conn.LocalAddr().String(), 120*time.Second)
			if !ok {
				res.Inconclusive(fmt.Sprintf("tcp-timeout case %d: handler did not return within the watchdog", i))
				return
			}
			if d.read > k {
				res.Violate("tcp:bytes-invented", "the handler read more bytes than were sent", map[string]interface{}{"tcp_timeout_case": i, "sent": k, "read": d.read})
				return
			}
			if d.read < k {
				// the read deadline expired while data was already pending in the socket (possible when the
				// process is starved of CPU): the stream the relay received ends after d.read bytes
				mu.Lock()
				stallsVoid++
				mu.Unlock()
			}
			isTO := false
			if ne, ok := d.err.(net.Error); ok && ne.Timeout() {
				isTO = true
			}
			mu.Lock()
			stalls++
			if isTO && d.read == k {
				stallsTimeoutSeen++
			}
			mu.Unlock()
			if insideLine(s, k) {
				res.NonTrivial(fmt.Sprintf("tcp-timeout/%d", i))
			}
			lines, read := d.lines, d.read
			resumed := false
			if i%2 == 0 && d.read == k && k < len(s) {
				// the client comes back after the pause and sends the rest. A relay that ended the stream at the
				// timeout never sees it; one that keeps the connection must not have cut a line in two at the pause:
				// whatever it dispatches for this connection in total must be the lines of what it read in total.
				conn.Write(s[k:])
				conn.CloseWrite()
				if d2, ok := ht.waitTCP(conn.LocalAddr().String(), 5*stallTimeout); ok {
					resumed = true
					lines = append(append([][]byte{}, d.lines...), d2.lines...)
					read = d.read + d2.read
					mu.Lock()
					resumedAfterTimeout++
					mu.Unlock()
				}
			}
			c.judge("tcp", lines, oracle.Split(s[:read]), func() map[string]interface{} {
				return map[string]interface{}{"tcp_timeout_case": i, "stream": streamWitness(s), "bytes_sent_before_stalling": k, "bytes_read_by_the_handler": read, "read_timeout": stallTimeout.String(), "handler_returned": fmt.Sprint(d.err), "handler_ran_again_after_the_timeout": resumed}
			})
			res.Eval(1)
		}(i, s, k)
	}
	wg2.Wait()
	lt.Stop()
	res.Count("tcp_stalled_connections", stalls)
	res.Count("tcp_connections_handled_again_after_a_timeout", resumedAfterTimeout)
	res.Count("tcp_stalled_connections_timed_out_with_data_still_pending", stallsVoid)
	res.Count("tcp_stalled_connections_ended_by_timeout_after_all_sent_bytes", stallsTimeoutSeen)
	res.Floor("tcp_stalled_connections_ended_by_timeout_after_all_sent_bytes", stallsTimeoutSeen, mon.N(60, 1400)*scalePct()/100)
}

// ---------------------------------------------------------------- phase: amqp

type mockClosable struct {
	mu     sync.Mutex
	closed int
}

func (m *mockClosable) Close() error {
	m.mu.Lock()
	m.closed++
	m.mu.Unlock()
	return nil
}

// amqpRun feeds the bodies, one delivery each, to a real Amqp input and returns
// everything it dispatched. Deliveries travel over an unbuffered channel and
// Stop() waits for the consumer goroutine, so the result is complete.
func amqpRun(bodies [][]byte) [][]byte {
	cd := &mon.CaptureDispatcher{}
	ch := make(chan amqp.Delivery)
	a := input.VerifNewMockedAMQP(cd, ch, &mockClosable{}, &mockClosable{})
	a.Start()
	for _, b := range bodies {
		ch <- amqp.Delivery{Body: b}
	}
	a.Stop()
	lines, _ := cd.Snapshot()
	return lines
}

// sentinel deliveries separate the bodies of one AMQP case in what the
// dispatcher saw, so every body is judged on its own.
func sentinel(j int) []byte { return []byte(fmt.Sprintf("\x00verif-amqp-sentinel-%d", j)) }

func (c *checker) amqpPhase() {
	res := c.res
	seed := mon.Seed()
	nCases := scale(mon.N(60, 2500))
	bodiesTotal, linesTotal, nearLimit, finalCR := 0, 0, 0, 0
	for i := 0; i < nCases; i++ {
		if !mon.Mine(i) {
			continue
		}
		r := mon.NewRng(seed, 1250, uint64(i))
		nb := r.Range(1, 40)
		var bodies, feed [][]byte
		for j := 0; j < nb; j++ {
			var s []byte
			switch x := r.Intn(12); {
			case x == 0:
				s = genLong(r, r.Range(amqpLimit, 40000), amqpLimit, amqpLimit-1)
			case x == 1:
				s = genSmall(r, 48)
			case x == 2:
				s = nil
			default:
				s = genCarbon(r, r.Range(1, 100), 60000)
			}
			bodies = append(bodies, s)
			feed = append(feed, s, sentinel(j))
		}
		res.LogCase("amqp %d bodies=%d", i, nb)
		got := amqpRun(feed)
		bodiesTotal += nb
		linesTotal += len(got) - nb
		res.NonTrivial(fmt.Sprintf("amqp/%d", i))
		off := 0
		for j, body := range bodies {
			end := off
			for end < len(got) && !bytes.Equal(got[end], sentinel(j)) {
				end++
			}
			if end == len(got) {
				c.res.Violate("amqp:lines-lost", "amqp input: the one-line delivery that follows a body was never dispatched",
					map[string]interface{}{"amqp_case": i, "body_index": j, "body": streamWitness(body)})
				break
			}
			g := got[off:end]
			off = end + 1
			want := oracle.Split(body)
			for _, l := range want {
				if len(l) >= amqpLimit-3 {
					nearLimit++
				}
			}
			wit := func() map[string]interface{} {
				return map[string]interface{}{"amqp_case": i, "bodies_in_case": nb, "body_index": j, "body": streamWitness(body)}
			}
			// one known shape is reported under its own signature and then set aside,
			// so that it cannot hide any other difference in the same body
			if n := len(body); n > 0 && body[n-1] == '\r' && len(g) == len(want) && len(want) > 0 {
				last := len(want) - 1
				if bytes.Equal(g[last], append(append([]byte{}, want[last]...), '\r')) {
					finalCR++
					w := wit()
					w["dispatched"] = trunc(g[last])
					w["oracle"] = trunc(want[last])
					c.res.Violate("amqp:final-cr-kept", "amqp input: the last line of a body that ends in CR without LF is dispatched with the CR (plain/TCP/UDP input removes it)", w)
					g = append(append([][]byte{}, g[:last]...), want[last])
				}
			}
			c.judge("amqp", g, want, wit)
		}
		res.Eval(1)
		if i < 1 {
			res.Sample(map[string]interface{}{"phase": "amqp", "bodies": nb, "lines": len(got) - nb})
		}
	}
	res.Count("amqp_bodies", bodiesTotal)
	res.Count("amqp_lines_dispatched", linesTotal)
	res.Count("amqp_lines_at_4k_limit", nearLimit)
	res.Count("amqp_bodies_ending_in_bare_cr", finalCR)
	res.Floor("amqp_bodies", bodiesTotal, mon.N(800, 40000)*scalePct()/100)
}

// scale shrinks the case counts for monitor validation against mutants only
// (C12_SCALE=25 runs a quarter; the floors shrink with it).
func scale(n int) int {
	if v, err := strconv.Atoi(os.Getenv("C12_SCALE")); err == nil && v > 0 && v < 100 {
		n = n * v / 100
		if n < 1 {
			n = 1
		}
	}
	return n
}

func scalePct() int {
	if v, err := strconv.Atoi(os.Getenv("C12_SCALE")); err == nil && v > 0 && v < 100 {
		return v
	}
	return 100
}

func main() {
	mon.InitRepo()
	res := mon.NewResult("C12")
	res.Rule = "streams: curated + random over {a-d,0-9,'.',' ',CR,LF} up to 48 B (every single cut, every pair of cuts, 1-byte reads, error returned together with the last bytes, timeout after every k bytes with and without data, one zero-length read); carbon-like streams up to 6 KB / 30 KB (LF, CRLF, CRCRLF, empty lines, lone CR, unterminated last line) and streams up to 300 KB with lines at 65536 B incl. terminator under random read sizes; the same generators over the real TCP listener (NODELAY, paced writes, stalled writers + read timeout), UDP datagrams (0-200 lines) and AMQP bodies (lines <= 4096 B incl. terminator). non-trivial = a read/write boundary falls inside a line or between CR and LF (plain, tcp), a datagram with >1 line (udp), a batch of bodies (amqp); distinct = (generator, stream index, segmentation class)"
	res.Assume("supported limits are read as: line length including its terminator <= 65536 B (plain/TCP/UDP, unterminated last line <= 65535 B) and <= 4096 B (AMQP); longer lines are measured, not judged")
	res.Assume("the per-connection wrapper handed to input.Listener only creates a fresh real input.Plain + capture dispatcher per connection/datagram and signals when Handle returned")
	res.Assume("a UDP datagram the kernel drops is nobody's fault: counted as inconclusive")
	c := &checker{res: res}
	secs := map[string]float64{}
	for _, ph := range []struct {
		name string
		f    func()
	}{{"limits", c.limitsPhase}, {"plain", c.plainPhase}, {"listener", c.listenerPhase}, {"amqp", c.amqpPhase}} {
		t0 := time.Now()
		ph.f()
		secs[ph.name] = float64(int(time.Since(t0).Seconds()*10)) / 10
		fmt.Printf("phase %s: %.1fs\n", ph.name, secs[ph.name])
	}
	if sh, _ := mon.Shard(); sh == 0 {
		res.Set("phase_seconds_shard0", secs)
	}
	res.Write()
}
