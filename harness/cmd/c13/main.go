// C13 — pickle input is equivalent to the plain-text input for the same datapoints.
//
// Differential oracle: CPython 3.11. The Go side generates, from (VERIF_SEED, index), descriptions of
// "connections" (1-20 frames, each a list of 0-200 datapoints); /verif/py/pickle_gen.py (one streaming
// subprocess per run) turns every description into real frames
//
//	struct.pack('>I', len(p)) + p,  p = pickle.dumps(list_of_(name,(ts,value)), protocol=0..4)
//
// (or, for what CPython 3 no longer emits, into Python-2 style opcode streams transcribed from Python 2.7's
// pickle.py: STRING / BINSTRING / SHORT_BINSTRING names, INT / LONG / LONG1 numbers) together with the
// equivalent plain-text lines, written by Python from the very same objects.
//
// The frames go to input.NewPickle(CaptureDispatcher).Handle through a reader that segments the stream
// (whole, byte by byte, every single cut for small streams, random segmentations); the text goes to
// input.NewPlain(another CaptureDispatcher).Handle. The two dispatched sequences must be the same datapoints
// in the same order: name bytes verbatim, value equal as text or to six decimals, timestamp equal as text or
// as integer part. IncNumInvalid must have been called once per structurally broken item, and broken items
// must not suppress their neighbours. A malformed frame must end its Handle call with an error after the
// lines of the frames before it, while a second connection running concurrently on the same handler is
// served completely.
package main

import (
	"bufio"
	"bytes"
	"encoding/binary"
	"encoding/hex"
	"encoding/json"
	"fmt"
	"io"
	"math"
	"os"
	"os/exec"
	"path/filepath"
	"runtime"
	"runtime/debug"
	"runtime/pprof"
	"sort"
	"strconv"
	"strings"
	"sync"
	"sync/atomic"
	"time"

	"github.com/grafana/carbon-relay-ng/input"

	"verifharness/mon"
)

// ------------------------------------------------------------------ case descriptions (JSON → python)

type nameD struct {
	K string `json:"k"` // u unicode, b python-3 bytes, s python-2 str
	X string `json:"x"` // hex of the utf-8 / raw bytes
}

type scal struct {
	K string `json:"k"` // i int, L python-2 long, f float (hex), s string
	V string `json:"v"`
}

type itemD struct {
	Shape string `json:"shape,omitempty"`
	OT    string `json:"ot,omitempty"`
	IT    string `json:"it,omitempty"`
	N     *nameD `json:"n,omitempty"`
	TS    *scal  `json:"ts,omitempty"`
	V     *scal  `json:"v,omitempty"`
	Same  *int   `json:"same,omitempty"`
	Nop   string `json:"nop,omitempty"`
	Tsop  string `json:"tsop,omitempty"`
	Vop   string `json:"vop,omitempty"`
	// labels (ignored by python), used for signatures and coverage
	NK string `json:"nk,omitempty"`
	TK string `json:"tk,omitempty"`
	VK string `json:"vk,omitempty"`
}

type frameD struct {
	Mode  string  `json:"mode"`
	Proto int     `json:"proto"`
	Top   string  `json:"top,omitempty"`
	Items []itemD `json:"items"`
}

type connD struct {
	ID     int      `json:"id"`
	Tag    string   `json:"tag"` // workload letter + index, also the prefix of every name
	Frames []frameD `json:"frames"`
}

// built is what python returned for a connection
type built struct {
	frames [][]byte
	plain  [][]byte
}

// ------------------------------------------------------------------ generators

const (
	wlMain  = "main"
	wlBytes = "py3bytes"
	wlPy2   = "py2"
	wlMal   = "malformed"
)

var asciiAlpha = []rune("abcdefghijklmnopqrstuvwxyz0123456789_-.")
var punctAlpha = []rune("\\'\"=;:%#@!~^&*()[]{}<>|/?+,$`")

func genBody(r *mon.Rng, kind string) string {
	n := r.Range(1, 12)
	if r.Chance(1, 40) {
		n = r.Range(240, 270) // around the 255/256 boundary of the short string opcodes
	}
	if r.Chance(1, 400) && mon.Thorough() {
		n = r.Range(1000, 3000)
	}
	var b strings.Builder
	special := func() rune {
		switch kind {
		case "punct":
			return punctAlpha[r.Intn(len(punctAlpha))]
		case "latin1":
			return rune(r.Range(0xA1, 0xFF))
		case "bmp":
			for {
				c := rune(r.Range(0x100, 0xFFFD))
				if c >= 0xD800 && c <= 0xDFFF {
					continue
				}
				if c == 0x1680 || (c >= 0x2000 && c <= 0x200F) || (c >= 0x2028 && c <= 0x202F) || c == 0x205F || c == 0x3000 || c == 0xFEFF {
					continue
				}
				return c
			}
		case "astral":
			return rune(r.Range(0x10000, 0x10FFFF))
		}
		return asciiAlpha[r.Intn(len(asciiAlpha))]
	}
	placed := false
	for i := 0; i < n; i++ {
		if kind != "ascii" && (r.Chance(1, 3) || (i == n-1 && !placed)) {
			b.WriteRune(special())
			placed = true
		} else {
			b.WriteRune(asciiAlpha[r.Intn(len(asciiAlpha))])
		}
	}
	return b.String()
}

// genRawBody: byte-string body (python-2 str / python-3 bytes). esc=true adds bytes that need escaping in repr().
func genRawBody(r *mon.Rng, esc bool) []byte {
	n := r.Range(1, 12)
	if r.Chance(1, 40) {
		n = r.Range(250, 262)
	}
	b := make([]byte, 0, n)
	placed := false
	for i := 0; i < n; i++ {
		if esc && (r.Chance(1, 3) || (i == n-1 && !placed)) {
			switch r.Intn(4) {
			case 0:
				b = append(b, byte(r.Range(0x80, 0xFF)))
			case 1:
				b = append(b, '\'')
			case 2:
				b = append(b, '\\')
			default:
				b = append(b, byte(r.PickInt([]int{'"', 0x7f, 0x01, 0x1f, 0xc3, 0xa9})))
			}
			placed = true
		} else {
			b = append(b, byte(asciiAlpha[r.Intn(len(asciiAlpha))]))
		}
	}
	return b
}

func fhex(f float64) string {
	if math.IsNaN(f) {
		return "nan"
	}
	if math.IsInf(f, 1) {
		return "inf"
	}
	if math.IsInf(f, -1) {
		return "-inf"
	}
	return strconv.FormatFloat(f, 'x', -1, 64)
}

func pow2(n int) string {
	x := new(bigInt).lsh1(n)
	return x.String()
}

func genTS(r *mon.Rng, py2 bool) (*scal, string) {
	x := r.Intn(100)
	switch {
	case x < 40: // realistic epoch
		return &scal{"i", strconv.Itoa(1500000000 + r.Intn(300000000))}, "int"
	case x < 52: // small: BININT1 / BININT2 boundaries
		return &scal{"i", strconv.Itoa(r.PickInt([]int{0, 1, 254, 255, 256, 65534, 65535, 65536, 70000, r.Intn(70000)}))}, "int"
	case x < 58:
		return &scal{"i", strconv.Itoa(r.PickInt([]int{2147483647, 2147483646, 1 << 30}))}, "int"
	case x < 70: // beyond 2^31-1: LONG / LONG1
		k := "i"
		if py2 {
			k = "L"
		}
		v := []string{"2147483648", "3000000000", "4294967295", "4294967296", "253402300800", pow2(63), pow2(64), pow2(70)}[r.Intn(8)]
		return &scal{k, v}, "bigint"
	case x < 88: // float, integral or with a fraction < 0.5
		base := float64(r.Intn(2000000000))
		if r.Chance(1, 4) {
			base = float64(r.Intn(100000))
		}
		if r.Chance(1, 2) {
			base += float64(r.Intn(49)) / 100
		}
		if r.Chance(1, 12) {
			base = float64(int64(1)<<uint(r.Range(32, 52))) + float64(r.Intn(1000))
		}
		return &scal{"f", fhex(base)}, "float"
	default:
		return &scal{"s", strconv.Itoa(1500000000 + r.Intn(300000000))}, "str"
	}
}

func genVal(r *mon.Rng, py2 bool) (*scal, string) {
	x := r.Intn(100)
	long := "i"
	switch {
	case x < 22:
		return &scal{"i", strconv.Itoa(r.PickInt([]int{0, 1, 42, 255, 256, 65535, 65536, 100000, 2147483647, r.Intn(1 << 31)}))}, "int"
	case x < 32:
		return &scal{"i", strconv.Itoa(-r.PickInt([]int{1, 5, 255, 256, 65536, 2147483647, 2147483648, 1 + r.Intn(1<<31)}))}, "negint32"
	case x < 42:
		if py2 {
			long = "L"
			if r.Chance(1, 3) { // a python-2 int on a 64-bit build holds up to 2^63-1
				return &scal{"i", []string{"2147483648", "3000000000", "4294967291", "9223372036854775807"}[r.Intn(4)]}, "bigint"
			}
		}
		v := []string{"2147483648", "3000000000", "4294967295", "4294967296", "1099511627776", pow2(63), pow2(64), pow2(100)}[r.Intn(8)]
		return &scal{long, v}, "bigint"
	case x < 47:
		if py2 {
			long = "L"
		}
		v := []string{"-2147483649", "-3000000000", "-4294967296", "-" + pow2(63), "-" + pow2(64)}[r.Intn(5)]
		return &scal{long, v}, "negbig"
	case x < 85:
		var f float64
		switch r.Intn(10) {
		case 0:
			f = float64(r.Intn(100000))
		case 1:
			f = float64(r.Intn(1000000)) / 1000
		case 2:
			f = -float64(r.Intn(1000000)) / 1000
		case 3:
			f = r.Float() * 1e9
		case 4:
			f = 1234567.891 + float64(r.Intn(1000))
		case 5:
			f = r.Float() * 1e-7
		case 6:
			f = math.Ldexp(r.Float(), r.Range(50, 80))
		case 7:
			f = []float64{0.5, 0.1, 1e21, 1e22, 123456789.123456789, -0.0, 1e-320, 1.7976931348623157e308}[r.Intn(8)]
		case 8:
			f = math.Float64frombits(r.U64())
			if math.IsNaN(f) || math.IsInf(f, 0) {
				f = 2.5
			}
		default:
			f = r.Float() * 100
		}
		if r.Chance(1, 60) {
			f = []float64{math.Inf(1), math.Inf(-1), math.NaN()}[r.Intn(3)]
		}
		return &scal{"f", fhex(f)}, "float"
	default:
		return &scal{"s", r.Pick([]string{"1.5", "42", "1e3", "-7.25", "0", "3000000000", "0.000001", "1E-3"})}, "str"
	}
}

var brokenShapes = []string{"arity1", "arity3", "inner1", "inner3", "none", "dict", "int", "str", "name_int", "name_none",
	"name_float", "inner_none", "inner_num", "inner_dict", "val_none", "ts_none", "val_list", "ts_dict"}

// shapes whose pickle contains the name object
func shapeHasName(s string) bool {
	switch s {
	case "none", "int", "name_int", "name_none", "name_float":
		return false
	}
	return true
}

type genOpts struct {
	workload string
	letter   string // first character of every name tag of this workload
	py2      bool
	bytes3   bool
}

func genItem(r *mon.Rng, o genOpts, tag string, fi, ii int, pBroken int) itemD {
	it := itemD{Shape: "ok", OT: "t", IT: "t"}
	if r.Chance(1, 5) {
		it.OT = "l"
	}
	if r.Chance(1, 5) {
		it.IT = "l"
	}
	prefix := fmt.Sprintf("%sf%di%d.", tag, fi, ii)
	exotic := r.Chance(1, 2)
	switch {
	case o.py2:
		switch r.Intn(6) {
		case 0:
			it.NK = "py2str-esc"
			it.N = &nameD{"s", hex.EncodeToString(append([]byte(prefix), genRawBody(r, true)...))}
		case 1:
			k := r.Pick([]string{"ascii", "latin1", "bmp", "astral", "punct"})
			it.NK = k
			it.N = &nameD{"u", hex.EncodeToString([]byte(prefix + genBody(r, k)))}
		default:
			it.NK = "py2str-ascii"
			it.N = &nameD{"s", hex.EncodeToString(append([]byte(prefix), genRawBody(r, false)...))}
		}
		if r.Chance(1, 4) {
			if it.N.K == "s" {
				it.Nop = r.Pick([]string{"STRING", "BINSTRING", "SHORT_BINSTRING"})
			} else {
				it.Nop = r.Pick([]string{"UNICODE", "BINUNICODE"})
			}
		}
	case o.bytes3 && r.Chance(1, 3):
		it.NK = "py3bytes"
		it.N = &nameD{"b", hex.EncodeToString(append([]byte(prefix), genRawBody(r, r.Bool())...))}
	default:
		k := "ascii"
		if exotic && r.Chance(1, 2) && !o.bytes3 {
			k = r.Pick([]string{"punct", "latin1", "bmp", "astral"})
			exotic = false
		}
		it.NK = k
		it.N = &nameD{"u", hex.EncodeToString([]byte(prefix + genBody(r, k)))}
	}
	// numbers: at most one exotic field most of the time, so that signatures stay attributable.
	// The python-3 bytes workload keeps every other field plain: its only subject is the known finding K1.
	if o.bytes3 {
		it.TS, it.TK = &scal{"i", strconv.Itoa(1500000000 + r.Intn(300000000))}, "int"
		if r.Bool() {
			it.V, it.VK = &scal{"i", strconv.Itoa(r.Intn(100000))}, "int"
		} else {
			it.V, it.VK = &scal{"f", fhex(float64(r.Intn(1000000)) / 1000)}, "float"
		}
	} else {
		for tries := 0; ; tries++ {
			it.TS, it.TK = genTS(r, o.py2)
			if it.TK == "int" || exotic || tries > 20 || r.Chance(1, 8) {
				if it.TK != "int" {
					exotic = false
				}
				break
			}
		}
		for tries := 0; ; tries++ {
			it.V, it.VK = genVal(r, o.py2)
			if it.VK == "int" || it.VK == "float" || exotic || tries > 20 || r.Chance(1, 8) {
				break
			}
		}
	}
	if o.py2 && r.Chance(1, 5) {
		forceNum(r, it.TS, &it.Tsop)
	}
	if o.py2 && r.Chance(1, 5) {
		forceNum(r, it.V, &it.Vop)
	}
	if r.Intn(1000) < pBroken {
		it.Shape = brokenShapes[r.Intn(len(brokenShapes))]
	}
	return it
}

// forceNum picks an opcode the number fits in (hand-assembled streams: any opcode is legal in any protocol)
func forceNum(r *mon.Rng, s *scal, op *string) {
	switch s.K {
	case "f":
		*op = r.Pick([]string{"FLOAT", "BINFLOAT"})
	case "i", "L":
		n, err := strconv.ParseInt(s.V, 10, 64)
		cands := []string{"LONG", "LONG1"}
		if err == nil {
			cands = append(cands, "INT")
			if n >= -2147483648 && n <= 2147483647 {
				cands = append(cands, "BININT")
			}
			if n >= 0 && n <= 255 {
				cands = append(cands, "BININT1")
			}
			if n >= 0 && n <= 65535 {
				cands = append(cands, "BININT2")
			}
		}
		*op = cands[r.Intn(len(cands))]
	}
}

var nHugeFrames int

func genConn(seed uint64, stream uint64, idx int, o genOpts, id int) connD {
	r := mon.NewRng(seed, stream, uint64(idx))
	tag := fmt.Sprintf("%s%d", o.letter, idx)
	c := connD{ID: id, Tag: tag}
	nf := 1
	switch x := r.Intn(100); {
	case x < 45:
		nf = 1
	case x < 80:
		nf = r.Range(2, 4)
	default:
		nf = r.Range(5, 20)
	}
	maxProto := 4
	if o.py2 {
		maxProto = 2
	}
	proto := r.Intn(maxProto + 1)
	pBroken := 0
	if r.Chance(1, 3) {
		pBroken = r.PickInt([]int{20, 100, 300, 700})
	}
	budget := 600 // items per connection (keeps a 20-frame connection from carrying 4000 items)
	if mon.Thorough() {
		budget = 1500
	}
	for f := 0; f < nf; f++ {
		if r.Chance(1, 6) {
			proto = r.Intn(maxProto + 1)
		}
		fd := frameD{Mode: "py3", Proto: proto}
		if o.py2 {
			fd.Mode = "py2"
		}
		var n int
		big, mid := 88, 60 // thorough: 12% of the lists hold 61-200 items, 28% 11-60
		if !mon.Thorough() {
			big, mid = 96, 78
		}
		switch x := r.Intn(100); {
		case x < 6:
			n = 0
		case x < 20:
			n = 1
		case x < mid:
			n = r.Range(2, 10)
		case x < big:
			n = r.Range(11, 60)
		default:
			n = r.Range(61, 200)
		}
		if n > budget {
			n = budget
		}
		budget -= n
		// a few connections carry one frame far larger than carbon's usual 500 datapoints per message: the list
		// order must survive whatever the handler does to get through a big frame
		hugeEvery := 97
		if mon.Thorough() {
			hugeEvery = 397
		}
		if o.workload == wlMain && idx%hugeEvery == 5 && f == 0 {
			n = r.Range(4096, 12000)
			nHugeFrames++
		}
		fd.Items = make([]itemD, 0, n)
		for i := 0; i < n; i++ {
			if i > 0 && r.Chance(1, 25) && !o.bytes3 { // the very same object again: memo GET / BINGET
				j := r.Intn(i)
				for fd.Items[j].Same != nil {
					j = *fd.Items[j].Same
				}
				it := fd.Items[j]
				it.Same = &j
				fd.Items = append(fd.Items, it)
				continue
			}
			fd.Items = append(fd.Items, genItem(r, o, tag, f, i, pBroken))
		}
		c.Frames = append(c.Frames, fd)
	}
	return c
}

// ------------------------------------------------------------------ tiny big-int (powers of two as decimal strings)

type bigInt struct{ d []int } // little-endian decimal digits

func (b *bigInt) lsh1(n int) *bigInt {
	b.d = []int{1}
	for i := 0; i < n; i++ {
		carry := 0
		for j := range b.d {
			v := b.d[j]*2 + carry
			b.d[j] = v % 10
			carry = v / 10
		}
		if carry > 0 {
			b.d = append(b.d, carry)
		}
	}
	return b
}

func (b *bigInt) String() string {
	var s strings.Builder
	for i := len(b.d) - 1; i >= 0; i-- {
		s.WriteByte(byte('0' + b.d[i]))
	}
	return s.String()
}

// ------------------------------------------------------------------ python subprocess

type pyGen struct {
	cmd  *exec.Cmd
	in   *bufio.Writer
	inC  io.WriteCloser
	out  *bufio.Reader
	dump *os.File // C13_DUMP=<file>: keep the descriptions sent to python (debugging aid)
}

func startPy() *pyGen {
	dir := os.Getenv("VERIF_DIR")
	if dir == "" {
		dir = "/verif"
	}
	cmd := exec.Command("python3", filepath.Join(dir, "py", "pickle_gen.py"))
	cmd.Stderr = os.Stderr
	in, err := cmd.StdinPipe()
	if err != nil {
		panic(err)
	}
	out, err := cmd.StdoutPipe()
	if err != nil {
		panic(err)
	}
	if err := cmd.Start(); err != nil {
		panic("cannot start python3: " + err.Error())
	}
	g := &pyGen{cmd: cmd, in: bufio.NewWriterSize(in, 1<<20), inC: in, out: bufio.NewReaderSize(out, 1<<20)}
	if df := os.Getenv("C13_DUMP"); df != "" {
		g.dump, _ = os.Create(df)
	}
	return g
}

func (p *pyGen) send(c connD) {
	b, err := json.Marshal(c)
	if err != nil {
		panic(err)
	}
	p.in.Write(b)
	p.in.WriteByte('\n')
	if p.dump != nil {
		p.dump.Write(b)
		p.dump.Write([]byte{'\n'})
	}
}

func (p *pyGen) readU32() uint32 {
	var b [4]byte
	if _, err := io.ReadFull(p.out, b[:]); err != nil {
		panic("python generator ended early (see its stderr above): " + err.Error())
	}
	return binary.BigEndian.Uint32(b[:])
}

func (p *pyGen) readBytes() []byte {
	n := p.readU32()
	b := make([]byte, n)
	if _, err := io.ReadFull(p.out, b); err != nil {
		panic("python generator ended early: " + err.Error())
	}
	return b
}

func (p *pyGen) recv(wantID int) built {
	id := int(p.readU32())
	if id != wantID {
		panic(fmt.Sprintf("python generator answered connection %d, expected %d", id, wantID))
	}
	n := int(p.readU32())
	var b built
	for i := 0; i < n; i++ {
		b.frames = append(b.frames, p.readBytes())
		b.plain = append(b.plain, p.readBytes())
	}
	return b
}

// ------------------------------------------------------------------ feeding the handlers

// chunkReader hands the stream out in the pieces given by cuts (ascending offsets).
type chunkReader struct {
	data   []byte
	cuts   []int
	pos    int
	ci     int
	waitAt int           // >=0: block on wait before returning bytes at or beyond this offset
	wait   chan struct{} // closed by the harness
	waited bool
	calls  int64 // atomic
}

func (c *chunkReader) Read(p []byte) (int, error) {
	atomic.AddInt64(&c.calls, 1)
	if c.pos >= len(c.data) {
		return 0, io.EOF
	}
	if c.wait != nil && !c.waited && c.pos >= c.waitAt {
		<-c.wait
		c.waited = true
	}
	end := len(c.data)
	for c.ci < len(c.cuts) && c.cuts[c.ci] <= c.pos {
		c.ci++
	}
	if c.ci < len(c.cuts) && c.cuts[c.ci] < end {
		end = c.cuts[c.ci]
	}
	if c.wait != nil && !c.waited && end > c.waitAt && c.waitAt > c.pos {
		end = c.waitAt
	}
	n := copy(p, c.data[c.pos:end])
	c.pos += n
	return n, nil
}

type outcome struct {
	lines   [][]byte
	invalid int
	err     error
	panicV  string
}

func (o outcome) digest() string {
	var b strings.Builder
	for _, l := range o.lines {
		b.Write(l)
		b.WriteByte('\n')
	}
	fmt.Fprintf(&b, "|inv=%d|err=%v|panic=%s", o.invalid, o.err != nil, o.panicV)
	return b.String()
}

// chunkReader.calls counts the Read calls of one Handle call: a call that is still running but made no Read call
// between two stack samples that both show a goroutine inside Pickle.Handle is not making progress.

// stuck is called when a Handle call does not return; set by main.
var stuck func(what string, stack string)

const stuckBound = 120 * time.Second // a Handle call on these streams takes milliseconds

func runHandle(h *input.Pickle, rd io.Reader) (err error, panicV string) {
	done := make(chan struct{})
	go func() {
		defer close(done)
		err, panicV = runHandle1(h, rd)
	}()
	for {
		select {
		case <-done:
			return
		case <-time.After(stuckBound):
		}
		// two samples, 2 s apart: a goroutine inside Pickle.Handle both times and no Read call in between
		inHandle := func() (bool, string) {
			buf := make([]byte, 1<<22)
			buf = buf[:runtime.Stack(buf, true)]
			for _, g := range strings.Split(string(buf), "\n\n") {
				if strings.Contains(g, "input.(*Pickle).Handle") && !strings.Contains(g, "main.(*chunkReader).Read") {
					return true, g
				}
			}
			return false, ""
		}
		cr, _ := rd.(*chunkReader)
		calls := func() int64 {
			if cr == nil {
				return 0
			}
			return atomic.LoadInt64(&cr.calls)
		}
		n0 := calls()
		a, st := inHandle()
		time.Sleep(2 * time.Second)
		b, _ := inHandle()
		if a && b && calls() == n0 {
			stuck("a Handle call has not returned and is not reading", st)
		}
	}
}

func runHandle1(h *input.Pickle, rd io.Reader) (err error, panicV string) {
	defer func() {
		if x := recover(); x != nil {
			st := string(debug.Stack())
			fn := "?"
			for _, l := range strings.Split(st, "\n") {
				if strings.Contains(l, "og-rek") || strings.Contains(l, "carbon-relay-ng/input") {
					if i := strings.LastIndex(l, "("); i > 0 && !strings.HasPrefix(l, "\t") {
						fn = l[:i]
						break
					}
				}
			}
			if i := strings.LastIndex(fn, "/"); i >= 0 {
				fn = fn[i+1:]
			}
			panicV = fmt.Sprintf("%s: %v", fn, x)
		}
	}()
	return h.Handle(rd), ""
}

func feedPickle(stream []byte, cuts []int) outcome {
	d := &mon.CaptureDispatcher{}
	h := input.NewPickle(d)
	err, pv := runHandle(h, &chunkReader{data: stream, cuts: cuts, waitAt: -1})
	lines, inv := d.Snapshot()
	return outcome{lines, inv, err, pv}
}

func feedPlain(text []byte) [][]byte {
	d := &mon.CaptureDispatcher{}
	if err := input.NewPlain(d).Handle(bytes.NewReader(text)); err != nil {
		panic("plain handler returned an error on generator text: " + err.Error())
	}
	lines, _ := d.Snapshot()
	return lines
}

// ------------------------------------------------------------------ comparing datapoints

func splitLine(l []byte) (name, val, ts []byte, ok bool) {
	j := bytes.LastIndexByte(l, ' ')
	if j < 0 {
		return nil, nil, nil, false
	}
	i := bytes.LastIndexByte(l[:j], ' ')
	if i < 0 {
		return nil, nil, nil, false
	}
	return l[:i], l[i+1 : j], l[j+1:], true
}

func sameValue(a, b []byte) bool {
	if bytes.Equal(a, b) {
		return true
	}
	fa, ea := strconv.ParseFloat(string(a), 64)
	fb, eb := strconv.ParseFloat(string(b), 64)
	if ea != nil && !isRange(ea) || eb != nil && !isRange(eb) {
		return false
	}
	if math.IsNaN(fa) && math.IsNaN(fb) {
		return true
	}
	return strconv.FormatFloat(fa, 'f', 6, 64) == strconv.FormatFloat(fb, 'f', 6, 64)
}

func isRange(err error) bool {
	ne, ok := err.(*strconv.NumError)
	return ok && ne.Err == strconv.ErrRange
}

func sameTS(a, b []byte) bool {
	if bytes.Equal(a, b) {
		return true
	}
	fa, ea := strconv.ParseFloat(string(a), 64)
	fb, eb := strconv.ParseFloat(string(b), 64)
	if ea != nil || eb != nil {
		return false
	}
	return math.Floor(fa) == math.Floor(fb)
}

// differs returns "" when the two lines are the same datapoint, else the first differing field.
func differs(p, e []byte) string {
	pn, pv, pt, ok1 := splitLine(p)
	en, ev, et, ok2 := splitLine(e)
	if !ok1 || !ok2 {
		if bytes.Equal(p, e) {
			return ""
		}
		return "shape"
	}
	if !bytes.Equal(pn, en) {
		return "name"
	}
	if !sameValue(pv, ev) {
		return "value"
	}
	if !sameTS(pt, et) {
		return "timestamp"
	}
	return ""
}

func lineID(l []byte) string {
	if i := bytes.IndexByte(l, '.'); i > 0 {
		return string(l[:i])
	}
	return ""
}

// opcode family a field travels in (for signatures)
func nameOp(f frameD, it itemD) string {
	if it.Nop != "" {
		return it.Nop
	}
	raw, _ := hex.DecodeString(it.N.X)
	switch {
	case f.Mode == "py2" && it.N.K == "s":
		if f.Proto == 0 {
			return "STRING"
		}
		if len(raw) < 256 {
			return "SHORT_BINSTRING"
		}
		return "BINSTRING"
	case it.N.K == "b":
		if f.Proto < 3 {
			return "codecs.encode-REDUCE"
		}
		return "BINBYTES"
	case f.Proto == 0:
		return "UNICODE"
	case f.Proto == 4 && len(raw) < 256:
		return "SHORT_BINUNICODE"
	}
	return "BINUNICODE"
}

func numOp(f frameD, s *scal, forced string) string {
	if forced != "" {
		return forced
	}
	switch s.K {
	case "s":
		return "string"
	case "f":
		if f.Proto == 0 {
			return "FLOAT"
		}
		return "BINFLOAT"
	}
	n, err := strconv.ParseInt(s.V, 10, 64)
	in32 := err == nil && n >= -2147483648 && n <= 2147483647
	if s.K == "L" {
		if f.Proto >= 2 {
			return "LONG1"
		}
		return "LONG"
	}
	if f.Proto == 0 {
		if in32 || f.Mode == "py2" {
			return "INT"
		}
		return "LONG"
	}
	if in32 {
		switch {
		case n >= 0 && n <= 255:
			return "BININT1"
		case n >= 0 && n <= 65535:
			return "BININT2"
		}
		return "BININT"
	}
	if f.Mode == "py2" {
		return "INT"
	}
	if f.Proto >= 2 {
		return "LONG1"
	}
	return "LONG"
}

// exoticLabel names the one feature of an item a dropped datapoint is attributed to (for a stable signature):
// a memo reference to a list, a python-3 bytes name, then the value / timestamp / name kind if it is not the plain
// one. The full description of the item is in the witness.
func exoticLabel(f frameD, it itemD) string {
	switch {
	case it.Same != nil && it.OT == "l":
		// the very same *list* object a second time: a memo reference to an object that was memoised while still empty
		return "memo=shared-list"
	case it.NK == "py3bytes":
		return "name=" + it.NK + ":" + nameOp(f, it)
	case it.VK != "int" && it.VK != "float":
		return "value=" + it.VK + ":" + numOp(f, it.V, it.Vop)
	case it.TK != "int":
		return "ts=" + it.TK + ":" + numOp(f, it.TS, it.Tsop)
	case it.Vop != "": // a plain number in a forced opcode (python-2 workload)
		return "value=" + it.VK + ":" + it.Vop
	case it.Tsop != "":
		return "ts=" + it.TK + ":" + it.Tsop
	case it.NK != "ascii" && it.NK != "py2str-ascii":
		return "name=" + it.NK + ":" + nameOp(f, it)
	}
	return "plain"
}

// expectation for one connection
type expItem struct {
	fi, ii int
	line   []byte
}

type expect struct {
	lines   []expItem
	invalid int
	wantErr bool
}

type finding struct {
	sig, msg string
	wit      map[string]interface{}
}

func itemOf(c connD, fi, ii int) (frameD, itemD) {
	f := c.Frames[fi]
	return f, f.Items[ii]
}

// judge compares one outcome with an expectation; returns the findings (deduplicated by signature).
func judge(c connD, o outcome, e expect, malKind string) []finding {
	var out []finding
	seen := map[string]bool{}
	add := func(sig, msg string, wit map[string]interface{}) {
		if seen[sig] {
			return
		}
		seen[sig] = true
		out = append(out, finding{sig, msg, wit})
	}
	if o.panicV != "" {
		add("handle-panic:"+strings.SplitN(o.panicV, ":", 2)[0], "Pickle.Handle panicked: "+o.panicV, nil)
		return out
	}
	if e.wantErr && o.err == nil {
		add("malformed-frame-no-error:"+malKind, "Handle returned nil although the connection carried a malformed frame ("+malKind+")", nil)
	}
	if !e.wantErr && o.err != nil {
		add("good-connection-error", "Handle returned an error on a connection of well-formed CPython frames: "+o.err.Error(), nil)
	}
	// datapoints
	i, j := 0, 0
	dropped := 0 // well-formed items the pickle side did not dispatch (each is normally also counted invalid)
	E, P := e.lines, o.lines
	idsLeft := func(id string, from int) bool {
		for k := from; k < len(P); k++ {
			if lineID(P[k]) == id {
				return true
			}
		}
		return false
	}
	for i < len(E) || j < len(P) {
		if i < len(E) && j < len(P) {
			d := differs(P[j], E[i].line)
			if d == "" {
				i++
				j++
				continue
			}
			if lineID(P[j]) == lineID(E[i].line) && lineID(P[j]) != "" {
				f, it := itemOf(c, E[i].fi, E[i].ii)
				var lab string
				switch d {
				case "name":
					lab = "name=" + it.NK + ":" + nameOp(f, it)
				case "value":
					lab = "value=" + it.VK + ":" + numOp(f, it.V, it.Vop)
				case "timestamp":
					lab = "ts=" + it.TK + ":" + numOp(f, it.TS, it.Tsop)
				default:
					lab = d
				}
				add("line-differs:"+lab, fmt.Sprintf("pickle input dispatched %q, plain input dispatched %q for the same datapoint (frame %d item %d, %s protocol %d)", P[j], E[i].line, E[i].fi, E[i].ii, f.Mode, f.Proto),
					map[string]interface{}{"frame": E[i].fi, "item": E[i].ii, "desc": it, "mode": f.Mode, "proto": f.Proto, "pickle_line": string(P[j]), "plain_line": string(E[i].line)})
				i++
				j++
				continue
			}
		}
		if j >= len(P) && o.err != nil && !e.wantErr {
			break // the call ended early with an error (reported above): the rest is its consequence
		}
		if i < len(E) && (j >= len(P) || !idsLeft(lineID(E[i].line), j)) {
			f, it := itemOf(c, E[i].fi, E[i].ii)
			dropped++
			add("item-dropped:"+exoticLabel(f, it), fmt.Sprintf("plain input dispatched %q, pickle input dispatched nothing for that datapoint (frame %d item %d, %s protocol %d, handle err=%v; IncNumInvalid calls %d, broken items %d)", E[i].line, E[i].fi, E[i].ii, f.Mode, f.Proto, o.err, o.invalid, e.invalid),
				map[string]interface{}{"frame": E[i].fi, "item": E[i].ii, "desc": it, "mode": f.Mode, "proto": f.Proto, "plain_line": string(E[i].line)})
			i++
			continue
		}
		if j < len(P) {
			add("extra-line", fmt.Sprintf("pickle input dispatched %q which the plain input did not produce at this position", P[j]), map[string]interface{}{"pickle_line": string(P[j])})
			j++
		}
	}
	if o.invalid != e.invalid && !(dropped > 0 && o.invalid == e.invalid+dropped) && !(o.err != nil && !e.wantErr) {
		dir := "over"
		if o.invalid < e.invalid {
			dir = "under"
		}
		add("invalid-count:"+dir, fmt.Sprintf("IncNumInvalid called %d times, the frames processed hold %d structurally broken items", o.invalid, e.invalid), nil)
	}
	return out
}

// trueExpect: what the property demands. upto = number of frames that must be processed (all, or those before a malformed one).
func trueExpect(c connD, plainLines [][][]byte, upto int, wantErr bool) expect {
	e := expect{wantErr: wantErr}
	for fi := 0; fi < upto; fi++ {
		k := 0
		for ii, it := range c.Frames[fi].Items {
			if it.Shape == "ok" {
				e.lines = append(e.lines, expItem{fi, ii, plainLines[fi][k]})
				k++
			} else {
				e.invalid++
			}
		}
	}
	return e
}

// k1Expect: the outcome the known finding K1 predicts for python-3 bytes names (og-rek decodes
// _codecs.encode(...) into a Call object → item counted invalid; SHORT_BINBYTES/BINBYTES unknown → frame rejected).
func k1Expect(c connD, plainLines [][][]byte) (expect, string) {
	e := expect{}
	kind := ""
	for fi, f := range c.Frames {
		hasB := false
		for _, it := range f.Items {
			if it.N != nil && it.N.K == "b" && shapeHasName(it.Shape) {
				hasB = true
			}
		}
		if hasB && f.Proto >= 3 {
			e.wantErr = true
			return e, "py3-bytes-name-frame-rejected"
		}
		k := 0
		for ii, it := range f.Items {
			if it.Shape == "ok" {
				if it.N.K == "b" {
					e.invalid++
					kind = "py3-bytes-name-invalid-item"
				} else {
					e.lines = append(e.lines, expItem{fi, ii, plainLines[fi][k]})
				}
				k++
			} else {
				e.invalid++
			}
		}
	}
	return e, kind
}

func matches(o outcome, e expect) bool {
	if o.panicV != "" || (o.err != nil) != e.wantErr || o.invalid != e.invalid || len(o.lines) != len(e.lines) {
		return false
	}
	for i := range o.lines {
		if differs(o.lines[i], e.lines[i].line) != "" {
			return false
		}
	}
	return true
}

// ------------------------------------------------------------------ segmentations

func segmentations(r *mon.Rng, n int, nrand int, small int) [][]int {
	segs := [][]int{nil} // whole stream in one read
	if n <= 1500 {
		all := make([]int, 0, n)
		for i := 1; i < n; i++ {
			all = append(all, i)
		}
		segs = append(segs, all) // byte by byte
	}
	if n <= small {
		for i := 1; i < n; i++ {
			segs = append(segs, []int{i}) // every single cut
		}
	}
	if n > 1500 {
		// a window of single-byte reads somewhere in a large stream (so that "remaining bytes of the payload"
		// takes every value around the 4096-byte chunk size), whole reads elsewhere
		w := r.Range(1500, 9000)
		from := r.Intn(max(1, n-w))
		var cuts []int
		for p := from; p < from+w && p < n; p++ {
			cuts = append(cuts, p)
		}
		segs = append(segs, cuts)
	}
	for k := 0; k < nrand; k++ {
		var cuts []int
		switch r.Intn(4) {
		case 0: // a handful of cuts
			for x := r.Range(1, 6); x > 0; x-- {
				cuts = append(cuts, r.Range(1, max(1, n-1)))
			}
		case 1: // small pieces
			for p := 0; p < n; {
				p += r.Range(1, 7)
				cuts = append(cuts, p)
			}
		case 2: // pieces around the 4096-byte buffer / chunk size
			for p := 0; p < n; {
				p += r.PickInt([]int{4095, 4096, 4097, 1, 3, 8191, 8192, 100, r.Range(1, 5000)})
				cuts = append(cuts, p)
			}
		default: // network-like
			for p := 0; p < n; {
				p += r.PickInt([]int{1448, 1460, 536, r.Range(1, 1460)})
				cuts = append(cuts, p)
			}
		}
		sort.Ints(cuts)
		segs = append(segs, cuts)
	}
	return segs
}

func max(a, b int) int {
	if a > b {
		return a
	}
	return b
}

// ------------------------------------------------------------------ workloads

type job struct {
	workload string
	idx      int
	c        connD
	b        built
}

type stats struct {
	mu sync.Mutex
	m  map[string]int
}

func (s *stats) add(k string, n int) {
	s.mu.Lock()
	s.m[k] += n
	s.mu.Unlock()
}

func perFramePlain(b built) [][][]byte {
	out := make([][][]byte, len(b.plain))
	for i, t := range b.plain {
		out[i] = feedPlain(t)
	}
	return out
}

func witness(j job, extra map[string]interface{}, cuts []int) map[string]interface{} {
	w := map[string]interface{}{
		"workload": j.workload, "index": j.idx, "seed": mon.Seed(), "tier": mon.Tier(),
		"regenerate": fmt.Sprintf("connection %q is genConn(seed=%d, workload=%s, index=%d); python: echo '<desc json>' | python3 /verif/py/pickle_gen.py", j.c.Tag, mon.Seed(), j.workload, j.idx),
	}
	protos := []int{}
	items := []int{}
	for _, f := range j.c.Frames {
		protos = append(protos, f.Proto)
		items = append(items, len(f.Items))
	}
	w["frame_protocols"] = protos
	w["frame_items"] = items
	if len(cuts) > 12 {
		w["cuts"] = fmt.Sprintf("%v... (%d cuts)", cuts[:12], len(cuts))
	} else {
		w["cuts"] = cuts
	}
	for k, v := range extra {
		w[k] = v
	}
	if fi, ok := extra["frame"].(int); ok && fi < len(j.b.frames) && len(j.b.frames[fi]) <= 600 {
		w["frame_hex"] = hex.EncodeToString(j.b.frames[fi])
	}
	return w
}

func checkConn(res *mon.Result, st *stats, j job) {
	c, b := j.c, j.b
	plainLines := perFramePlain(b)
	// sanity of the oracle side: one plain line per well-formed item
	for fi, f := range c.Frames {
		ok := 0
		for _, it := range f.Items {
			if it.Shape == "ok" {
				ok++
			}
		}
		if ok != len(plainLines[fi]) {
			panic(fmt.Sprintf("oracle: connection %s frame %d: %d well-formed items but the plain handler dispatched %d lines", c.Tag, fi, ok, len(plainLines[fi])))
		}
	}
	stream := bytes.Join(b.frames, nil)
	want := trueExpect(c, plainLines, len(c.Frames), false)
	var k1 expect
	k1sig := ""
	if j.workload == wlBytes {
		k1, k1sig = k1Expect(c, plainLines)
	}
	r := mon.NewRng(mon.Seed(), 1300, uint64(j.c.ID))
	segs := segmentations(r, len(stream), mon.N(3, 4), mon.N(160, 320))
	judged := map[string]bool{}
	nonTrivial := false
	for si, cuts := range segs {
		o := feedPickle(stream, cuts)
		st.add("handle_runs", 1)
		st.add("lines_compared", len(o.lines))
		st.add("invalid_items_counted", o.invalid)
		if len(cuts) > 0 && len(o.lines) > 0 {
			nonTrivial = true
		}
		dg := o.digest()
		if judged[dg] {
			continue
		}
		judged[dg] = true
		if si > 0 && len(judged) > 1 {
			res.Violate("segmentation-dependent", "the same byte stream gave a different result when segmented differently", witness(j, nil, cuts))
		}
		if matches(o, want) {
			continue
		}
		if k1sig != "" && matches(o, k1) {
			st.add("k1_observed", 1)
			res.Violate(k1sig, "python-3 bytes name: "+map[string]string{
				"py3-bytes-name-invalid-item":   "the datapoint is counted invalid and dropped (protocols 0-2: _codecs.encode reduce is not a string for the handler)",
				"py3-bytes-name-frame-rejected": "the whole frame is rejected and the connection ended (protocols 3-4: BINBYTES opcodes unknown to the decoder)",
			}[k1sig], witness(j, nil, cuts))
			continue
		}
		for _, f := range judge(c, o, want, "") {
			res.Violate(f.sig, f.msg, witness(j, f.wit, cuts))
		}
	}
	st.add("segmentations", len(segs))
	st.add("frames_fed", len(c.Frames))
	st.add("connections", 1)
	st.add("stream_bytes", len(stream))
	st.add("broken_items_planted", want.invalid)
	loc := map[string]int{}
	for _, f := range c.Frames {
		loc[fmt.Sprintf("frames_%s_proto%d", f.Mode, f.Proto)]++
		for _, it := range f.Items {
			if it.Shape == "ok" {
				loc["items_name_"+it.NK]++
				loc["items_ts_"+it.TK]++
				loc["items_value_"+it.VK]++
				if it.Same != nil {
					loc["items_memo_same_object"]++
				}
			} else {
				loc["items_broken_"+it.Shape]++
			}
		}
	}
	for k, v := range loc {
		st.add(k, v)
	}
	res.Eval(1)
	if nonTrivial {
		res.NonTrivial(j.workload + "/" + c.Tag)
	}
}

// malformed frames -----------------------------------------------------------

var malKinds = []string{"badprefix", "toplevel-not-list", "tuple-of-list", "short-payload", "short-prefix", "oversize-length", "zero-length", "unknown-opcode", "opcode-soup", "truncated-pickle"}

func u32(n uint32) []byte {
	var b [4]byte
	binary.BigEndian.PutUint32(b[:], n)
	return b[:]
}

func frameOf(p []byte) []byte { return append(u32(uint32(len(p))), p...) }

// soup: a syntactically plausible random opcode sequence after a valid list prefix, arguments kept small
func soup(r *mon.Rng) []byte {
	p := [][]byte{[]byte("]"), []byte("(l"), {0x80, 2, ']'}, {0x80, 4, 0x95, 5, 0, 0, 0, 0, 0, 0, 0, ']'}}[r.Intn(4)]
	p = append([]byte(nil), p...)
	ops := []func(){
		func() { p = append(p, '(') },
		func() { p = append(p, 't') },
		func() { p = append(p, 'a') },
		func() { p = append(p, 'e') },
		func() { p = append(p, 'l') },
		func() { p = append(p, 'd') },
		func() { p = append(p, '}') },
		func() { p = append(p, 's') },
		func() { p = append(p, 'u') },
		func() { p = append(p, 'N') },
		func() { p = append(p, '0') },
		func() { p = append(p, '2') },
		func() { p = append(p, ')') },
		func() { p = append(p, 0x85) },
		func() { p = append(p, 0x86) },
		func() { p = append(p, 0x87) },
		func() { p = append(p, 0x88) },
		func() { p = append(p, 0x94) },
		func() { p = append(p, 'K', byte(r.Intn(256))) },
		func() { p = append(p, 'J', byte(r.Intn(256)), byte(r.Intn(256)), 0, 0) },
		func() { p = append(p, 'q', byte(r.Intn(4))) },
		func() { p = append(p, 'h', byte(r.Intn(4))) },
		func() { p = append(p, []byte("p"+strconv.Itoa(r.Intn(4))+"\n")...) },
		func() { p = append(p, []byte("g"+strconv.Itoa(r.Intn(4))+"\n")...) },
		func() { p = append(p, []byte("I"+strconv.Itoa(r.Intn(100))+"\n")...) },
		func() { p = append(p, []byte("F1.5\n")...) },
		func() { p = append(p, []byte("L12L\n")...) },
		func() { p = append(p, 'U', 2, 'a', 'b') },
		func() { p = append(p, 'X', 2, 0, 0, 0, 'a', 'b') },
		func() { p = append(p, 0x8c, 2, 'a', 'b') },
		func() { p = append(p, 0x8a, 1, 7) },
		func() { p = append(p, 'G', 0x3f, 0xf8, 0, 0, 0, 0, 0, 0) },
		func() { p = append(p, []byte("S'ab'\n")...) },
		func() { p = append(p, []byte("Vab\n")...) },
		func() { p = append(p, []byte("cmod\nname\n")...) },
		func() { p = append(p, 'R') },
	}
	for n := r.Range(1, 30); n > 0; n-- {
		ops[r.Intn(len(ops))]()
	}
	// whatever is on top is wrapped in a 1-tuple: were the soup to decode at all, it is not a list
	return append(p, 0x85, '.')
}

// malformed returns the bytes of a malformed frame and whether it has to be the end of the stream.
func malformed(r *mon.Rng, kind string, good []byte, tupleOfList []byte) (frame []byte, last bool) {
	payload := good[4:]
	switch kind {
	case "badprefix":
		switch r.Intn(4) {
		case 0:
			return frameOf([]byte("this is not a pickle at all\n")), false
		case 1:
			p := append([]byte(nil), payload...)
			p[0] ^= 0x21
			return frameOf(p), false
		case 2:
			return frameOf([]byte("foo.bar 1 2\nfoo.baz 2 3\n")), false // plain text on the pickle port
		default:
			p := r.Bytes(r.Range(3, 40))
			p[0] = 0
			return frameOf(p), false
		}
	case "toplevel-not-list":
		// protocol 2 pickles of a dict, a string, a tuple of datapoints, None
		ps := [][]byte{
			[]byte("\x80\x02}q\x00X\x01\x00\x00\x00aK\x01s."),
			[]byte("\x80\x02X\x03\x00\x00\x00abcq\x00."),
			[]byte("\x80\x02X\x01\x00\x00\x00aK\x01K\x02\x86q\x00\x86q\x01\x85q\x02."),
			[]byte("N."),
			[]byte("(dp0\n."),
		}
		return frameOf(ps[r.Intn(len(ps))]), false
	case "tuple-of-list":
		return tupleOfList, false
	case "short-payload":
		cut := 4 + r.Range(0, len(payload)-1)
		return append([]byte(nil), good[:cut]...), true
	case "short-prefix":
		return append([]byte(nil), good[:r.Range(1, 3)]...), true
	case "oversize-length":
		n := []uint32{500*1024*1024 + 1, 0x20000000, 0x7fffffff, 0x80000000, 0xffffffff, 0x5d5d5d5d}[r.Intn(6)]
		return append(u32(n), payload...), false
	case "zero-length":
		return u32(0), false
	case "unknown-opcode":
		pre := [][]byte{[]byte("]"), []byte("(l"), {0x80, 2, ']'}, {0x80, 3, ']'}}[r.Intn(4)]
		p := append(append([]byte(nil), pre...), byte(r.PickInt([]int{0xff, 0x00, 0x01, 0xfe, 0x7f, 'C', 'B', 0x8e})))
		p = append(p, r.Bytes(r.Range(0, 20))...)
		return frameOf(append(p, '.')), false
	case "opcode-soup":
		return frameOf(soup(r)), false
	case "truncated-pickle":
		// the frame is intact (length matches) but the pickle inside lost its tail
		keep := r.Range(3, max(3, len(payload)-1))
		if keep >= len(payload) {
			keep = len(payload) - 1
		}
		if keep < 1 {
			keep = 1
		}
		return frameOf(payload[:keep]), false
	}
	panic("unknown malformed kind " + kind)
}

// checkMalformed: connection B carries a malformed frame after k good ones (more good frames follow unless the
// malformation is a truncation); connection A is healthy, runs on the same handler and dispatcher, and is held in
// the middle of its stream until B's Handle call has returned.
func checkMalformed(res *mon.Result, st *stats, j job, healthy job, tupleFrame []byte) {
	r := mon.NewRng(mon.Seed(), 1301, uint64(j.idx))
	kind := malKinds[j.idx%len(malKinds)]
	cB, bB := j.c, j.b
	k := r.Intn(len(bB.frames) + 1)
	ref := bB.frames[r.Intn(len(bB.frames))]
	for tries := 0; len(ref) < 12 && tries < 20; tries++ {
		ref = bB.frames[r.Intn(len(bB.frames))]
	}
	if len(ref) < 12 {
		ref = frameOf([]byte("\x80\x02]q\x00(X\x03\x00\x00\x00a.bK\x01K\x02\x86\x86a."))
	}
	mal, last := malformed(r, kind, ref, tupleFrame)
	var stream []byte
	for i := 0; i < k; i++ {
		stream = append(stream, bB.frames[i]...)
	}
	malAt := len(stream)
	stream = append(stream, mal...)
	if !last {
		for i := k; i < len(bB.frames); i++ {
			stream = append(stream, bB.frames[i]...)
		}
	}
	plainB := perFramePlain(bB)
	wantB := trueExpect(cB, plainB, k, true)
	streamA := bytes.Join(healthy.b.frames, nil)
	checkConn(res, st, healthy) // judged on its own like any other connection
	aloneA := feedPickle(streamA, nil)

	res.LogCase("malformed %d kind=%s after %d good frames, stream %d bytes, concurrent healthy connection %s", j.idx, kind, k, len(stream), healthy.c.Tag)

	segsB := segmentations(r, len(stream), 2, 0)
	for si, cuts := range segsB {
		d := &mon.CaptureDispatcher{}
		h := input.NewPickle(d)
		gate := make(chan struct{})
		sa := segmentations(r, len(streamA), 1, 0)
		ra := &chunkReader{data: streamA, cuts: sa[len(sa)-1], waitAt: len(streamA) / 2, wait: gate}
		if si%2 == 1 {
			ra.cuts = nil
		}
		var errA error
		var panA string
		doneA := make(chan struct{})
		go func() {
			errA, panA = runHandle(h, ra)
			close(doneA)
		}()
		errB, panB := runHandle(h, &chunkReader{data: stream, cuts: cuts, waitAt: -1})
		close(gate)
		<-doneA
		lines, inv := d.Snapshot()
		var la, lb [][]byte
		for _, l := range lines {
			if bytes.HasPrefix(l, []byte(healthy.c.Tag+"f")) {
				la = append(la, l)
			} else {
				lb = append(lb, l)
			}
		}
		st.add("handle_runs", 2)
		st.add("lines_compared", len(lines))
		st.add("malformed_frames_fed", 1)
		st.add("malformed_"+kind, 1)
		oB := outcome{lb, wantB.invalid, errB, panB} // invalid is accounted over both connections below
		oA := outcome{la, aloneA.invalid, errA, panA}
		wit := map[string]interface{}{"malformed_kind": kind, "malformed_frame_hex": hex.EncodeToString(mal[:min(len(mal), 200)]), "malformed_at_offset": malAt, "good_frames_before": k, "handle_error": fmt.Sprint(errB)}
		for _, f := range judge(cB, oB, wantB, kind) {
			w := witness(j, f.wit, cuts)
			for kk, v := range wit {
				w[kk] = v
			}
			res.Violate(f.sig, f.msg, w)
		}
		// the healthy connection must fare exactly as it does when it is alone
		if oA.digest() != aloneA.digest() {
			w := witness(healthy, nil, ra.cuts)
			for kk, v := range wit {
				w[kk] = v
			}
			w["alone"] = fmt.Sprintf("%d lines, err=%v", len(aloneA.lines), aloneA.err)
			w["concurrent"] = fmt.Sprintf("%d lines, err=%v, panic=%q", len(la), errA, panA)
			res.Violate("concurrent-connection-affected", "a healthy connection served concurrently with a malformed one on the same handler did not produce what it produces alone", w)
		}
		invAlone := aloneA.invalid
		if inv != invAlone+wantB.invalid && panA == "" && panB == "" && len(lb) == len(wantB.lines) {
			res.Violate("invalid-count:malformed", fmt.Sprintf("IncNumInvalid called %d times over both connections; the healthy one alone gives %d, the frames before the malformed one hold %d broken items", inv, invAlone, wantB.invalid), witness(j, wit, cuts))
		}
		if errB != nil {
			st.add("malformed_ended_with_error", 1)
		}
	}
	res.Eval(1)
	res.NonTrivial(wlMal + "/" + kind + "/" + cB.Tag)
}

func min(a, b int) int {
	if a < b {
		return a
	}
	return b
}

// ------------------------------------------------------------------ main

func main() {
	if pf := os.Getenv("C13_PROF"); pf != "" {
		f, _ := os.Create(pf)
		pprof.StartCPUProfile(f)
		defer pprof.StopCPUProfile()
	}
	// --replay FILE: re-run exactly the connection a violation was witnessed on (same seed and tier)
	replayWL, replayIdx := "", -1
	if rp := os.Getenv("VERIF_REPLAY"); rp != "" {
		var rf struct {
			Seed   uint64 `json:"seed"`
			Tier   string `json:"tier"`
			Replay struct {
				Workload string `json:"workload"`
				Index    int    `json:"index"`
			} `json:"replay"`
		}
		b, err := os.ReadFile(rp)
		if err != nil || json.Unmarshal(b, &rf) != nil || rf.Replay.Workload == "" {
			fmt.Fprintln(os.Stderr, "C13: cannot use replay file", rp)
			os.Exit(2)
		}
		os.Setenv("VERIF_SEED", strconv.FormatUint(rf.Seed, 10))
		os.Setenv("VERIF_TIER", rf.Tier)
		replayWL, replayIdx = rf.Replay.Workload, rf.Replay.Index
		if replayWL == "healthy" {
			replayWL = wlMal
		}
	}
	res := mon.NewResult("C13")
	mon.InitRepo() // silences the repo's logger (one log line per broken item otherwise)
	res.Rule = "connections generated from (seed, workload, index): 1-20 frames x 0-200 items, tuples and lists, unicode names (ascii, punctuation, latin-1, BMP, astral), int / negative / >2^31 / float / str values and timestamps, broken items in a third of the connections, CPython protocols 0-4 (workload main), python-3 bytes names (workload py3bytes, known finding K1), python-2 opcode streams protocols 0-2 with forced opcodes (workload py2), one malformed frame of 10 kinds next to a concurrent healthy connection (workload malformed); each stream is fed whole, byte by byte, with every single cut when small, and randomly segmented; non-trivial = at least one datapoint was dispatched through a segmented read and compared with the plain-text path (malformed: the malformed frame was fed); distinct = connections"
	res.Assume("CPython 3.11 pickle.dumps is the reference encoder for protocols 0-4; the python-2 streams are a transcription of Python 2.7 pickle.py, each verified to load back in CPython 3")
	res.Assume("the equivalent plain text is written by Python from the same objects: str(int), repr(float), the string itself; names are the utf-8 / raw bytes")
	res.Assume("same datapoint = name bytes equal; value equal as text or equal when both are rounded to 6 decimals; timestamp equal as text or equal integer part (float timestamps are generated with a fraction < 0.5)")
	res.Assume("names never contain whitespace or control characters (the plain protocol cannot carry them)")
	res.Assume("a reader never returns data together with io.EOF (net.Conn does not)")

	py := startPy()
	st := &stats{m: map[string]int{}}
	var stuckOnce sync.Once
	stuck = func(what, stack string) {
		stuckOnce.Do(func() {
			// the goroutine cannot be stopped: report, write what was observed so far and leave
			res.Violate("handle-stuck", what+" (two stack samples 2 s apart show a goroutine inside Pickle.Handle, no Read call by it in between, after "+stuckBound.String()+")",
				map[string]interface{}{"stack": stack, "last_cases": "see cases log: the connections logged last", "seed": mon.Seed(), "tier": mon.Tier()})
			res.Write()
			os.Exit(0)
		})
		select {}
	}
	seed := mon.Seed()

	nMain := mon.N(400, 6000)
	nBytes := mon.N(60, 600)
	nPy2 := mon.N(140, 2000)
	nMal := mon.N(80, 1000)

	type plan struct {
		workload string
		stream   uint64
		n        int
		o        genOpts
	}
	plans := []plan{
		{wlMain, 13, nMain, genOpts{workload: wlMain, letter: "m"}},
		{wlBytes, 14, nBytes, genOpts{workload: wlBytes, letter: "b", bytes3: true}},
		{wlPy2, 15, nPy2, genOpts{workload: wlPy2, letter: "q", py2: true}},
		{wlMal, 16, nMal, genOpts{workload: wlMal, letter: "x"}},
	}

	// producer: generate descriptions, send them to python, pass them on in order
	type pending struct {
		workload string
		idx      int
		c        connD
		extra    *connD // malformed: the concurrent healthy connection
		tuple    *connD // malformed: a tuple-of-list frame
	}
	pend := make(chan pending, 256)
	go func() {
		id := 0
		for _, p := range plans {
			for i := 0; i < p.n; i++ {
				if !mon.Mine(i) || (replayIdx >= 0 && (p.workload != replayWL || i != replayIdx)) {
					continue
				}
				c := genConn(seed, p.stream, i, p.o, id)
				id++
				pe := pending{workload: p.workload, idx: i, c: c}
				if p.workload == wlMal {
					h := genConn(seed, 17, i, genOpts{workload: "healthy", letter: "h"}, id)
					id++
					pe.extra = &h
					t := connD{ID: id, Tag: "t", Frames: []frameD{{Mode: "py3", Proto: 1 + i%4, Top: "tuple_of_list", Items: c.Frames[0].Items}}}
					id++
					pe.tuple = &t
				}
				// announce first, write second: the consumer must already be reading python's answers while the
				// descriptions are written, or both pipes can fill up (python blocks on its stdout, we on its stdin)
				pend <- pe
				py.send(c)
				if pe.extra != nil {
					py.send(*pe.extra)
					py.send(*pe.tuple)
				}
				py.in.Flush()
			}
		}
		py.in.Flush()
		py.inC.Close()
		close(pend)
	}()

	workers := runtime.NumCPU() / 2
	if workers < 2 {
		workers = 2
	}
	if workers > 8 {
		workers = 8
	}
	type work struct {
		j       job
		healthy *job
		tuple   []byte
	}
	jobs := make(chan work, 64)
	var wg sync.WaitGroup
	for w := 0; w < workers; w++ {
		wg.Add(1)
		go func() {
			defer wg.Done()
			for wk := range jobs {
				if wk.j.workload == wlMal {
					checkMalformed(res, st, wk.j, *wk.healthy, wk.tuple)
				} else {
					checkConn(res, st, wk.j)
				}
			}
		}()
	}
	sampled := map[string]bool{}
	count := map[string]int{}
	for pe := range pend {
		b := py.recv(pe.c.ID)
		j := job{pe.workload, pe.idx, pe.c, b}
		wk := work{j: j}
		if pe.extra != nil {
			hb := py.recv(pe.extra.ID)
			wk.healthy = &job{"healthy", pe.idx, *pe.extra, hb}
			tb := py.recv(pe.tuple.ID)
			wk.tuple = tb.frames[0]
		}
		if pe.workload != wlMal {
			res.LogCase("%s %d tag=%s frames=%d bytes=%d", pe.workload, pe.idx, pe.c.Tag, len(pe.c.Frames), len(bytes.Join(b.frames, nil)))
		}
		if !sampled[pe.workload] && len(b.frames) > 0 && len(b.frames[0]) < 300 && len(b.plain[0]) > 0 {
			sampled[pe.workload] = true
			res.Sample(map[string]interface{}{"workload": pe.workload, "index": pe.idx, "frames": len(b.frames), "first_frame_protocol": pe.c.Frames[0].Proto,
				"first_frame": strconv.QuoteToASCII(string(b.frames[0])), "first_frame_plain_text": strconv.QuoteToASCII(string(b.plain[0]))})
		}
		count[pe.workload]++
		jobs <- wk
	}
	close(jobs)
	wg.Wait()
	if err := py.cmd.Wait(); err != nil {
		panic("python generator failed: " + err.Error())
	}
	keys := make([]string, 0, len(st.m))
	for k := range st.m {
		keys = append(keys, k)
	}
	sort.Strings(keys)
	cov := map[string]int{}
	for _, k := range keys {
		if strings.HasPrefix(k, "items_") || strings.HasPrefix(k, "frames_py") || strings.HasPrefix(k, "malformed_") && k != "malformed_frames_fed" && k != "malformed_ended_with_error" {
			cov[k] = st.m[k]
		} else {
			res.Count(k, st.m[k])
		}
	}
	res.Set("coverage_by_kind", cov)
	for _, p := range plans {
		res.Count("connections_"+p.workload, count[p.workload])
	}
	if replayIdx < 0 {
		truncationSweep(res)
		res.Floor("lines_compared", st.m["lines_compared"], mon.N(40000, 2000000))
		res.Floor("malformed_frames_fed", st.m["malformed_frames_fed"], nMal)
		res.Floor("connections", st.m["connections"], nMain+nBytes+nPy2)
	}
	res.Write()
}
