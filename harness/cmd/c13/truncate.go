package main

// Truncation sweep, added after seeded change C14-2 (a protocol check that indexes past a
// short Peek) went unnoticed: the malformed-frame workload cut payloads at random positions only.
// Here a stream of CPython frames (protocols 0-4) is cut at EVERY byte position and the
// connection ends there (EOF), fed both in one read and byte by byte. For each cut:
//   - the handler must not panic and must return;
//   - the datapoints dispatched must be exactly those of the frames that are complete
//     before the cut (nothing from a frame that is cut, nothing lost before it);
//   - a cut inside a frame must end the call with an error, a cut on a frame boundary must not.

import (
	"bytes"
	"encoding/hex"
	"fmt"
	"io"
	"os/exec"
	"strings"

	"github.com/grafana/carbon-relay-ng/input"

	"verifharness/mon"
)

const truncPy = `
import pickle, struct, sys
for proto in range(5):
    frames = []
    for k, items in enumerate(([("c13t.a", (1500000000, 1.5)), ("c13t.b", (1500000001, 2))], [("c13t.c", (1500000002, 3))], [])):
        p = pickle.dumps(items, protocol=proto)
        frames.append(struct.pack(">I", len(p)) + p)
    print(proto, " ".join(f.hex() for f in frames))
`

type oneByte struct{ r io.Reader }

func (o oneByte) Read(p []byte) (int, error) {
	if len(p) == 0 {
		return 0, nil
	}
	return o.r.Read(p[:1])
}

func truncationSweep(res *mon.Result) {
	sh, _ := mon.Shard()
	if sh != 0 {
		return
	}
	out, err := exec.Command("python3", "-c", truncPy).Output()
	if err != nil {
		res.Inconclusive("truncation sweep: python3 could not produce the frames: " + err.Error())
		return
	}
	wantPerFrame := [][]string{{"c13t.a 1.500000 1500000000", "c13t.b 2 1500000001"}, {"c13t.c 3 1500000002"}, {}}
	cuts := 0
	for _, line := range strings.Split(strings.TrimSpace(string(out)), "\n") {
		f := strings.Fields(line)
		proto := f[0]
		var frames [][]byte
		for _, h := range f[1:] {
			b, _ := hex.DecodeString(h)
			frames = append(frames, b)
		}
		stream := bytes.Join(frames, nil)
		// frame boundaries
		var ends []int
		off := 0
		for _, fr := range frames {
			off += len(fr)
			ends = append(ends, off)
		}
		for k := 0; k <= len(stream); k++ {
			for _, mode := range []string{"whole", "bytewise"} {
				res.LogCase("truncation proto=%s cut=%d mode=%s", proto, k, mode)
				d := &mon.CaptureDispatcher{}
				var rd io.Reader = bytes.NewReader(stream[:k])
				if mode == "bytewise" {
					rd = oneByte{rd}
				}
				var herr error
				var panicked interface{}
				func() {
					defer func() { panicked = recover() }()
					herr = input.NewPickle(d).Handle(rd)
				}()
				cuts++
				w := map[string]interface{}{"protocol": proto, "cut_after_bytes": k, "stream_hex": hex.EncodeToString(stream), "mode": mode}
				if panicked != nil {
					res.Violate("truncated-stream-panic", fmt.Sprintf("protocol %s stream cut after %d of %d bytes (%s): the pickle handler panicked: %v", proto, k, len(stream), mode, panicked), w)
					return
				}
				var want []string
				complete := 0
				for i, e := range ends {
					if e <= k {
						want = append(want, wantPerFrame[i]...)
						complete = i + 1
					}
				}
				lines, _ := d.Snapshot()
				var got []string
				for _, l := range lines {
					got = append(got, string(l))
				}
				if strings.Join(got, "|") != strings.Join(want, "|") {
					w["dispatched"], w["expected"] = got, want
					res.Violate("truncated-stream-lines", fmt.Sprintf("protocol %s stream cut after %d bytes (%d complete frames): dispatched %q, expected %q", proto, k, complete, got, want), w)
					return
				}
				onBoundary := k == 0
				for _, e := range ends {
					if e == k {
						onBoundary = true
					}
				}
				if !onBoundary && herr == nil {
					res.Violate("malformed-frame-no-error:cut-stream", fmt.Sprintf("protocol %s stream cut after %d bytes, inside a frame: the handler returned no error", proto, k), w)
					return
				}
				if onBoundary && herr != nil {
					res.Violate("good-connection-error", fmt.Sprintf("protocol %s stream ending on a frame boundary (%d bytes): handler returned %v", proto, k, herr), w)
					return
				}
			}
		}
	}
	res.Count("truncation_cuts_checked", cuts)
	res.Eval(cuts)
	res.NonTrivial("truncation-sweep")
	res.Floor("truncation_cuts_checked", cuts, 300)
}
