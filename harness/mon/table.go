package mon

import (
	"fmt"
	"io"
	"strings"
	"sync"
	"time"

	"github.com/BurntSushi/toml"
	"github.com/grafana/carbon-relay-ng/aggregator"
	"github.com/grafana/carbon-relay-ng/cfg"
	"github.com/grafana/carbon-relay-ng/destination"
	"github.com/grafana/carbon-relay-ng/imperatives"
	"github.com/grafana/carbon-relay-ng/table"
	log "github.com/sirupsen/logrus"
)

var initOnce sync.Once
var applyMu sync.Mutex

// InitRepo does what main() does before building a table (aggregator metrics)
// and silences the repo's logger.
func InitRepo() {
	initOnce.Do(func() {
		aggregator.InitMetrics()
		log.SetOutput(io.Discard)
		log.SetLevel(log.ErrorLevel)
	})
}

// TableFromTOML builds a real table exactly as main() does: the TOML text is
// decoded into cfg.Config (starting from cfg.NewConfig() defaults), turned into
// a TableConfig, and cfg.InitTable applies the sections.
func TableFromTOML(tomlText string) (*table.Table, cfg.Config, error) {
	InitRepo()
	config := cfg.NewConfig()
	meta, err := toml.Decode(tomlText, &config)
	if err != nil {
		return nil, config, fmt.Errorf("toml: %v", err)
	}
	tc, err := config.TableConfig()
	if err != nil {
		return nil, config, err
	}
	t := table.New(tc)
	if err := cfg.InitTable(t, config, meta); err != nil {
		return t, config, err
	}
	return t, config, nil
}

// NewTable builds an empty real table with the given validation settings
// written as they would be in the configuration file.
func NewTable(legacy, m20 string, validateOrder bool, spoolDir string) *table.Table {
	txt := fmt.Sprintf("instance = \"default\"\nspool_dir = %q\nbad_metrics_max_age = \"24h\"\nvalidate_order = %v\n", spoolDir, validateOrder)
	if legacy != "" {
		txt += fmt.Sprintf("validation_level_legacy = %q\n", legacy)
	}
	if m20 != "" {
		txt += fmt.Sprintf("validation_level_m20 = %q\n", m20)
	}
	t, _, err := TableFromTOML(txt)
	if err != nil {
		panic("NewTable: " + err.Error())
	}
	return t
}

// Apply runs an admin/init command against the table as the admin port would.
func Apply(t table.Interface, cmd string) error {
	InitRepo()
	// the command scanner has package-level state: the harness never applies two commands at once
	applyMu.Lock()
	defer applyMu.Unlock()
	return imperatives.Apply(t, cmd)
}

// ParseDestinations builds destinations the way addRoute does (same command scanner, same lock as Apply).
func ParseDestinations(t table.Interface, routeKey string, specs ...string) ([]*destination.Destination, error) {
	InitRepo()
	applyMu.Lock()
	defer applyMu.Unlock()
	return imperatives.ParseDestinations(specs, t, false, routeKey)
}

// ProbeOnline dispatches unique probe lines through dispatch() until one shows
// up at the endpoint (the destination's relay loop has adopted the connection),
// at most `steps` times, 5ms apart. Probe lines are named "verifprobe.<tag>.<n>".
func ProbeOnline(dispatch func([]byte), ep *Endpoint, tag string, steps int) bool {
	for i := 0; i < steps; i++ {
		line := fmt.Sprintf("verifprobe.%s.%d 1 1", tag, i)
		dispatch([]byte(line))
		for j := 0; j < 20; j++ {
			for _, c := range ep.Conns() {
				if bytesContains(c.Data(), "verifprobe."+tag+".") {
					return true
				}
			}
			time.Sleep(time.Millisecond)
		}
	}
	return false
}

func bytesContains(b []byte, s string) bool { return strings.Contains(string(b), s) }
