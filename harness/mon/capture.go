package mon

import (
	"errors"
	"sync"

	dest "github.com/grafana/carbon-relay-ng/destination"
	"github.com/grafana/carbon-relay-ng/matcher"
	"github.com/grafana/carbon-relay-ng/route"
)

// Captured is one Route.Dispatch call seen by a capture route.
type Captured struct {
	Seq   int    // global order across all capture routes sharing a Log
	Copy  []byte // bytes at call time
	Given []byte // the slice the route was handed (retained, to detect later alteration)
}

// Log orders events of several capture routes.
type Log struct {
	mu  sync.Mutex
	seq int
}

func (l *Log) next() int {
	l.mu.Lock()
	l.seq++
	s := l.seq
	l.mu.Unlock()
	return s
}

// CaptureRoute implements route.Route; it is registered through Table.AddRoute
// like any other route and records what it is handed.
type CaptureRoute struct {
	key string
	m   matcher.Matcher
	log *Log

	mu   sync.Mutex
	Got  []Captured
	Hook func(buf []byte) // optional, called inside Dispatch before recording
}

func NewCaptureRoute(key string, m matcher.Matcher, log *Log) *CaptureRoute {
	if log == nil {
		log = &Log{}
	}
	return &CaptureRoute{key: key, m: m, log: log}
}

func (c *CaptureRoute) Dispatch(buf []byte) {
	if h := c.Hook; h != nil {
		h(buf)
	}
	cp := make([]byte, len(buf))
	copy(cp, buf)
	s := c.log.next()
	c.mu.Lock()
	c.Got = append(c.Got, Captured{Seq: s, Copy: cp, Given: buf})
	c.mu.Unlock()
}

func (c *CaptureRoute) Match(s []byte) bool { return c.m.Match(s) }

func (c *CaptureRoute) Snapshot() route.Snapshot {
	return route.Snapshot{Matcher: c.m, Type: "capture", Key: c.key}
}
func (c *CaptureRoute) Key() string     { return c.key }
func (c *CaptureRoute) Flush() error    { return nil }
func (c *CaptureRoute) Shutdown() error { return nil }
func (c *CaptureRoute) GetDestination(index int) (*dest.Destination, error) {
	return nil, errors.New("capture route has no destinations")
}
func (c *CaptureRoute) DelDestination(index int) error { return errors.New("capture route") }
func (c *CaptureRoute) UpdateDestination(index int, opts map[string]string) error {
	return errors.New("capture route")
}
func (c *CaptureRoute) Update(opts map[string]string) error { return errors.New("capture route") }

// Take returns and clears what was captured so far.
func (c *CaptureRoute) Take() []Captured {
	c.mu.Lock()
	g := c.Got
	c.Got = nil
	c.mu.Unlock()
	return g
}

// Len returns the number of captured lines.
func (c *CaptureRoute) Len() int {
	c.mu.Lock()
	defer c.mu.Unlock()
	return len(c.Got)
}

// Lines returns copies of the captured lines as strings.
func (c *CaptureRoute) Lines() []string {
	c.mu.Lock()
	defer c.mu.Unlock()
	out := make([]string, len(c.Got))
	for i, g := range c.Got {
		out[i] = string(g.Copy)
	}
	return out
}

// CaptureDispatcher implements input.Dispatcher (what input handlers feed).
type CaptureDispatcher struct {
	mu      sync.Mutex
	Lines   [][]byte // copies at call time
	Given   [][]byte // the slices themselves
	Invalid int
}

func (d *CaptureDispatcher) Dispatch(buf []byte) {
	cp := make([]byte, len(buf))
	copy(cp, buf)
	d.mu.Lock()
	d.Lines = append(d.Lines, cp)
	d.Given = append(d.Given, buf)
	d.mu.Unlock()
}

func (d *CaptureDispatcher) IncNumInvalid() {
	d.mu.Lock()
	d.Invalid++
	d.mu.Unlock()
}

func (d *CaptureDispatcher) Snapshot() (lines [][]byte, invalid int) {
	d.mu.Lock()
	defer d.mu.Unlock()
	return append([][]byte(nil), d.Lines...), d.Invalid
}
