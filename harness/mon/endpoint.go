package mon

import (
	"net"
	"sync"
	"sync/atomic"
	"syscall"
	"time"
)

// Mode is how a loopback endpoint treats the bytes it is sent.
type Mode struct {
	// NoRead: accept and never read (black hole).
	NoRead bool
	// Rate > 0: read at most Rate bytes per second (throttled).
	Rate int
	// CloseAfter > 0: close the connection after that many bytes were read from it.
	CloseAfter int
	// Abortive: closes use SO_LINGER 0 (RST) instead of a graceful FIN.
	Abortive bool
	// RcvBuf > 0: SO_RCVBUF for the listening socket (inherited by accepted ones).
	RcvBuf int
}

// ConnRec is what one incarnation (accepted connection) received.
type ConnRec struct {
	mu     sync.Mutex
	data   []byte
	closed bool // the endpoint side closed / saw EOF
	c      *net.TCPConn
	stop   chan struct{}
	At     time.Time // when the endpoint accepted the connection
}

func (r *ConnRec) Data() []byte {
	r.mu.Lock()
	defer r.mu.Unlock()
	return append([]byte(nil), r.data...)
}

// DataFrom returns a copy of the bytes received from offset off on.
func (r *ConnRec) DataFrom(off int) []byte {
	r.mu.Lock()
	defer r.mu.Unlock()
	if off >= len(r.data) {
		return nil
	}
	return append([]byte(nil), r.data[off:]...)
}

func (r *ConnRec) Len() int {
	r.mu.Lock()
	defer r.mu.Unlock()
	return len(r.data)
}

// Endpoint is a scripted loopback TCP listener recording the raw byte stream per connection.
type Endpoint struct {
	Addr string // 127.0.0.1:port (stable across Down/Up)

	mu    sync.Mutex
	ln    *net.TCPListener
	mode  Mode
	conns []*ConnRec
	total int64
	wg    sync.WaitGroup
}

// NewEndpoint starts listening on an ephemeral loopback port in read-everything mode.
func NewEndpoint(mode Mode) *Endpoint {
	e := &Endpoint{mode: mode}
	ln, err := net.ListenTCP("tcp", &net.TCPAddr{IP: net.IPv4(127, 0, 0, 1)})
	if err != nil {
		panic(err)
	}
	e.Addr = ln.Addr().String()
	e.start(ln)
	return e
}

// ReservedAddr returns a loopback address nothing listens on (bound once, then released).
func ReservedAddr() string {
	for {
		ln, err := net.ListenTCP("tcp", &net.TCPAddr{IP: net.IPv4(127, 0, 0, 1)})
		if err != nil {
			panic(err)
		}
		a := ln.Addr().String()
		ln.Close()
		// the kernel may hand out a port again once it was released: two destinations of one route must never
		// get the same address (same counter key, same ring node)
		reservedMu.Lock()
		dup := reserved[a]
		reserved[a] = true
		reservedMu.Unlock()
		if !dup {
			return a
		}
	}
}

var (
	reservedMu sync.Mutex
	reserved   = map[string]bool{}
)

// NewEndpointDown reserves an address but does not listen yet (connections are refused until Up).
func NewEndpointDown(mode Mode) *Endpoint {
	return &Endpoint{mode: mode, Addr: ReservedAddr()}
}

func (e *Endpoint) start(ln *net.TCPListener) {
	if e.mode.RcvBuf > 0 {
		if rc, err := ln.SyscallConn(); err == nil {
			rc.Control(func(fd uintptr) {
				syscall.SetsockoptInt(int(fd), syscall.SOL_SOCKET, syscall.SO_RCVBUF, e.mode.RcvBuf)
			})
		}
	}
	e.mu.Lock()
	e.ln = ln
	e.mu.Unlock()
	e.wg.Add(1)
	go e.acceptLoop(ln)
}

// Up starts listening again on the same address (no-op if already up).
func (e *Endpoint) Up() {
	e.mu.Lock()
	up := e.ln != nil
	e.mu.Unlock()
	if up {
		return
	}
	addr, _ := net.ResolveTCPAddr("tcp", e.Addr)
	var ln *net.TCPListener
	var err error
	for i := 0; i < 200; i++ {
		ln, err = net.ListenTCP("tcp", addr)
		if err == nil {
			break
		}
		time.Sleep(5 * time.Millisecond)
	}
	if err != nil {
		panic("endpoint cannot listen again on " + e.Addr + ": " + err.Error())
	}
	e.start(ln)
}

// Down stops listening and closes every open connection.
func (e *Endpoint) Down() {
	e.mu.Lock()
	ln := e.ln
	e.ln = nil
	conns := append([]*ConnRec(nil), e.conns...)
	abortive := e.mode.Abortive
	e.mu.Unlock()
	if ln != nil {
		ln.Close()
	}
	for _, r := range conns {
		r.close(abortive)
	}
	e.wg.Wait()
}

// CloseConns closes the open connections but keeps listening.
func (e *Endpoint) CloseConns() {
	e.mu.Lock()
	conns := append([]*ConnRec(nil), e.conns...)
	abortive := e.mode.Abortive
	e.mu.Unlock()
	for _, r := range conns {
		r.close(abortive)
	}
}

func (r *ConnRec) close(abortive bool) {
	r.mu.Lock()
	if r.closed {
		r.mu.Unlock()
		return
	}
	r.closed = true
	r.mu.Unlock()
	close(r.stop)
	if abortive {
		r.c.SetLinger(0)
	}
	r.c.Close()
}

// SetMode changes the behaviour for connections accepted from now on
// (and the read rate / NoRead of the current ones at their next read).
func (e *Endpoint) SetMode(m Mode) {
	e.mu.Lock()
	e.mode = m
	e.mu.Unlock()
}

func (e *Endpoint) getMode() Mode {
	e.mu.Lock()
	defer e.mu.Unlock()
	return e.mode
}

func (e *Endpoint) acceptLoop(ln *net.TCPListener) {
	defer e.wg.Done()
	for {
		c, err := ln.AcceptTCP()
		if err != nil {
			return
		}
		r := &ConnRec{c: c, stop: make(chan struct{}), At: time.Now()}
		e.mu.Lock()
		e.conns = append(e.conns, r)
		e.mu.Unlock()
		e.wg.Add(1)
		go e.serve(r)
	}
}

func (e *Endpoint) serve(r *ConnRec) {
	defer e.wg.Done()
	buf := make([]byte, 64*1024)
	for {
		m := e.getMode()
		if m.NoRead {
			select {
			case <-r.stop:
				return
			case <-time.After(20 * time.Millisecond):
				continue
			}
		}
		chunk := buf
		if m.Rate > 0 {
			// read Rate/50 bytes every 20ms
			n := m.Rate / 50
			if n < 1 {
				n = 1
			}
			if n < len(chunk) {
				chunk = buf[:n]
			}
		}
		if m.CloseAfter > 0 {
			left := m.CloseAfter - r.Len()
			if left <= 0 {
				r.close(m.Abortive)
				return
			}
			if left < len(chunk) {
				chunk = chunk[:left]
			}
		}
		n, err := r.c.Read(chunk)
		if n > 0 {
			r.mu.Lock()
			r.data = append(r.data, chunk[:n]...)
			r.mu.Unlock()
			atomic.AddInt64(&e.total, int64(n))
		}
		if err != nil {
			r.mu.Lock()
			already := r.closed
			r.closed = true
			r.mu.Unlock()
			if !already {
				close(r.stop)
				r.c.Close()
			}
			return
		}
		if m.Rate > 0 {
			select {
			case <-r.stop:
				return
			case <-time.After(20 * time.Millisecond):
			}
		}
	}
}

// Accepted returns how many connections were accepted so far.
func (e *Endpoint) Accepted() int {
	e.mu.Lock()
	defer e.mu.Unlock()
	return len(e.conns)
}

// Conns returns the per-connection records in accept order.
func (e *Endpoint) Conns() []*ConnRec {
	e.mu.Lock()
	defer e.mu.Unlock()
	return append([]*ConnRec(nil), e.conns...)
}

// TotalBytes returns the number of bytes read over all connections.
func (e *Endpoint) TotalBytes() int64 { return atomic.LoadInt64(&e.total) }

// WaitAccepted polls (bounded number of 2ms steps) until n connections were accepted.
func (e *Endpoint) WaitAccepted(n int, steps int) bool {
	for i := 0; i < steps; i++ {
		if e.Accepted() >= n {
			return true
		}
		time.Sleep(2 * time.Millisecond)
	}
	return e.Accepted() >= n
}

// Close shuts the endpoint down for good.
func (e *Endpoint) Close() { e.Down() }
