package mon

// Rng is splitmix64: every random choice of a check derives from
// (VERIF_SEED, stream, case index), so a case is replayable from its index.
type Rng struct{ s uint64 }

func NewRng(seed uint64, stream uint64, idx uint64) *Rng {
	r := &Rng{s: seed*0x9E3779B97F4A7C15 ^ stream*0xBF58476D1CE4E5B9 ^ idx*0x94D049BB133111EB}
	r.U64()
	r.U64()
	return r
}

func (r *Rng) U64() uint64 {
	r.s += 0x9E3779B97F4A7C15
	z := r.s
	z = (z ^ (z >> 30)) * 0xBF58476D1CE4E5B9
	z = (z ^ (z >> 27)) * 0x94D049BB133111EB
	return z ^ (z >> 31)
}

// Intn returns a value in [0,n).
func (r *Rng) Intn(n int) int {
	if n <= 0 {
		return 0
	}
	return int(r.U64() % uint64(n))
}

// Range returns a value in [lo,hi].
func (r *Rng) Range(lo, hi int) int { return lo + r.Intn(hi-lo+1) }

func (r *Rng) Bool() bool { return r.U64()&1 == 1 }

// Chance is true with probability num/den.
func (r *Rng) Chance(num, den int) bool { return r.Intn(den) < num }

func (r *Rng) Float() float64 { return float64(r.U64()>>11) / float64(1<<53) }

func (r *Rng) Pick(ss []string) string { return ss[r.Intn(len(ss))] }

func (r *Rng) PickInt(ss []int) int { return ss[r.Intn(len(ss))] }

func (r *Rng) Bytes(n int) []byte {
	b := make([]byte, n)
	for i := range b {
		b[i] = byte(r.U64())
	}
	return b
}

// Perm returns a permutation of 0..n-1.
func (r *Rng) Perm(n int) []int {
	p := make([]int, n)
	for i := range p {
		p[i] = i
	}
	for i := n - 1; i > 0; i-- {
		j := r.Intn(i + 1)
		p[i], p[j] = p[j], p[i]
	}
	return p
}
