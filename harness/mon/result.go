// Package mon holds the shared monitors of the verification harness:
// result/evidence bookkeeping, PRNG, counter reader, capture routes,
// loopback endpoints.
package mon

import (
	"encoding/json"
	"fmt"
	"os"
	"sort"
	"strconv"
	"sync"
)

// Violation is one refuting observation.
type Violation struct {
	Sig    string      `json:"sig"`    // stable signature (used by KNOWN_FINDINGS.txt)
	Msg    string      `json:"msg"`    // human readable
	Replay interface{} `json:"replay"` // the witness: input, configuration, history
}

// Result is what a check binary hands back to the driver (VERIF_OUT).
type Result struct {
	mu sync.Mutex

	Property    string
	Tier        string
	Seed        uint64
	Evaluations int
	nontrivial  map[string]struct{}
	Rule        string
	Samples     []interface{}
	Extra       map[string]interface{}
	Violations  []Violation
	sigCount    map[string]int
	Inconcl     int
	InconclMsgs []string
	Assumptions []string
	floors      map[string][2]int
	caseLog     *os.File
}

func NewResult(property string) *Result {
	r := &Result{
		Property:   property,
		Tier:       Tier(),
		Seed:       Seed(),
		nontrivial: map[string]struct{}{},
		Extra:      map[string]interface{}{},
		sigCount:   map[string]int{},
		floors:     map[string][2]int{},
	}
	if w := os.Getenv("VERIF_WORK"); w != "" {
		sh, _ := Shard()
		r.caseLog, _ = os.OpenFile(fmt.Sprintf("%s/cases-%d.log", w, sh), os.O_CREATE|os.O_WRONLY|os.O_APPEND, 0644)
	}
	return r
}

func Tier() string {
	t := os.Getenv("VERIF_TIER")
	if t != "thorough" {
		return "quick"
	}
	return t
}

func Thorough() bool { return Tier() == "thorough" }

// N picks the case count for the current tier.
func N(quick, thorough int) int {
	if Thorough() {
		return thorough
	}
	return quick
}

func Seed() uint64 {
	s, err := strconv.ParseInt(os.Getenv("VERIF_SEED"), 10, 64)
	if err != nil {
		return 1
	}
	return uint64(s)
}

// LogCase records the case about to be applied (so that a process death
// can be attributed to it).
func (r *Result) LogCase(format string, a ...interface{}) {
	if r.caseLog == nil {
		return
	}
	r.mu.Lock()
	fmt.Fprintf(r.caseLog, format+"\n", a...)
	r.mu.Unlock()
}

func (r *Result) Eval(n int) {
	r.mu.Lock()
	r.Evaluations += n
	r.mu.Unlock()
}

// NonTrivial records the signature of a case that met the check's
// non-triviality rule; the evidence reports the number of distinct ones.
func (r *Result) NonTrivial(sig string) {
	r.mu.Lock()
	if len(r.nontrivial) < 2000000 {
		r.nontrivial[sig] = struct{}{}
	}
	r.mu.Unlock()
}

func (r *Result) Sample(s interface{}) {
	r.mu.Lock()
	if len(r.Samples) < 6 {
		r.Samples = append(r.Samples, s)
	}
	r.mu.Unlock()
}

func (r *Result) Count(key string, n int) {
	r.mu.Lock()
	v, _ := r.Extra[key].(int)
	r.Extra[key] = v + n
	r.mu.Unlock()
}

func (r *Result) Set(key string, v interface{}) {
	r.mu.Lock()
	r.Extra[key] = v
	r.mu.Unlock()
}

// Violate records a violation; at most 3 witnesses are kept per signature.
func (r *Result) Violate(sig, msg string, replay interface{}) {
	r.mu.Lock()
	defer r.mu.Unlock()
	r.sigCount[sig]++
	if r.sigCount[sig] > 3 || len(r.Violations) > 200 {
		return
	}
	r.Violations = append(r.Violations, Violation{sig, msg, replay})
}

func (r *Result) NumViolations() int {
	r.mu.Lock()
	defer r.mu.Unlock()
	n := 0
	for _, c := range r.sigCount {
		n += c
	}
	return n
}

func (r *Result) Inconclusive(msg string) {
	r.mu.Lock()
	r.Inconcl++
	if len(r.InconclMsgs) < 20 {
		r.InconclMsgs = append(r.InconclMsgs, msg)
	}
	r.mu.Unlock()
}

func (r *Result) Assume(s string) { r.Assumptions = append(r.Assumptions, s) }

// Floor declares the run broken (not "held") when a monitor saw too little.
// got is this shard's count, want the floor for the whole run (the driver
// sums got over the shards).
func (r *Result) Floor(name string, got, want int) {
	r.mu.Lock()
	defer r.mu.Unlock()
	r.floors[name] = [2]int{got, want}
}

// Shard returns (index, count) of this process among the parallel children
// the driver started; cases are partitioned by index modulo count.
func Shard() (int, int) {
	i, err1 := strconv.Atoi(os.Getenv("VERIF_SHARD"))
	n, err2 := strconv.Atoi(os.Getenv("VERIF_NSHARDS"))
	if err1 != nil || err2 != nil || n < 1 || i < 0 || i >= n {
		return 0, 1
	}
	return i, n
}

// Mine tells whether case idx belongs to this shard.
func Mine(idx int) bool {
	i, n := Shard()
	return idx%n == i
}

// Write emits the result file. Call once, last.
func (r *Result) Write() {
	r.mu.Lock()
	defer r.mu.Unlock()
	sc := map[string]int{}
	for k, v := range r.sigCount {
		sc[k] = v
	}
	if len(sc) > 0 {
		r.Extra["violation_counts_by_sig"] = sc
	}
	out := map[string]interface{}{
		"property":          r.Property,
		"evaluations":       r.Evaluations,
		"nontrivial":        len(r.nontrivial),
		"rule":              r.Rule,
		"samples":           r.Samples,
		"extra":             r.Extra,
		"violations":        r.Violations,
		"inconclusive":      r.Inconcl,
		"inconclusive_msgs": r.InconclMsgs,
		"assumptions":       r.Assumptions,
		"floors":            r.floors,
	}
	if _, n := Shard(); n > 1 {
		hs := make([]string, 0, len(r.nontrivial))
		for k := range r.nontrivial {
			hs = append(hs, hash64(k))
		}
		out["nontrivial_hashes"] = hs
	}
	if r.Violations == nil {
		out["violations"] = []Violation{}
	}
	b, err := json.MarshalIndent(out, "", " ")
	if err != nil {
		panic(err)
	}
	p := os.Getenv("VERIF_OUT")
	if p == "" {
		os.Stdout.Write(b)
		return
	}
	tmp := p + ".tmp"
	if err := os.WriteFile(tmp, b, 0644); err != nil {
		panic(err)
	}
	os.Rename(tmp, p)
	keys := make([]string, 0, len(sc))
	for k := range sc {
		keys = append(keys, k)
	}
	sort.Strings(keys)
	fmt.Printf("result: property=%s evaluations=%d nontrivial=%d violations=%v\n", r.Property, r.Evaluations, len(r.nontrivial), keys)
}

func hash64(s string) string {
	h := uint64(14695981039346656037)
	for i := 0; i < len(s); i++ {
		h ^= uint64(s[i])
		h *= 1099511628211
	}
	return strconv.FormatUint(h, 36)
}

// Scratch returns a scratch directory (tmpfs when available).
func Scratch() string {
	if d := os.Getenv("VERIF_SCRATCH"); d != "" {
		os.MkdirAll(d, 0755)
		return d
	}
	d, err := os.MkdirTemp("/dev/shm", "verif-")
	if err != nil {
		d, _ = os.MkdirTemp("", "verif-")
	}
	return d
}
