package mon

import (
	"strings"

	metrics "github.com/Dieterbe/go-metrics"
)

// CounterName maps a key as used in the repo's stats.Counter(key) call
// (e.g. "unit=Metric.direction=in", "dest=<destkey>.unit=Metric.action=drop.reason=slow_conn")
// to the name it has in the process-global go-metrics registry.
func CounterName(key string) string {
	k := "service=carbon-relay-ng.instance=default.mtype=counter." + key
	return strings.Replace(k, "=", "_is_", -1)
}

// Counter reads a counter from the registry; 0 if it does not exist (yet).
func Counter(key string) int64 {
	if c, ok := metrics.DefaultRegistry.Get(CounterName(key)).(metrics.Counter); ok {
		return c.Count()
	}
	return 0
}

// GaugeValue reads a gauge registered through stats.Gauge(key).
func GaugeValue(key string) int64 {
	k := strings.Replace("service=carbon-relay-ng.instance=default.mtype=gauge."+key, "=", "_is_", -1)
	if g, ok := metrics.DefaultRegistry.Get(k).(metrics.Gauge); ok {
		return g.Value()
	}
	return 0
}

// DestKey is the key carbon destinations use in their counter names:
// <route>_<addr with '.' and ':' replaced by '_'> (the addr as given, including an instance suffix).
func DestKey(routeKey, addr string) string {
	a := strings.Replace(addr, ".", "_", -1)
	a = strings.Replace(a, ":", "_", -1)
	a = strings.Replace(a, "/", "", -1)
	return routeKey + "_" + a
}

// Deltas snapshots a set of counters so that identities can be stated over
// what happened in between (counters are process-global).
type Deltas struct {
	keys []string
	base map[string]int64
}

func NewDeltas(keys ...string) *Deltas {
	d := &Deltas{keys: keys, base: map[string]int64{}}
	for _, k := range keys {
		d.base[k] = Counter(k)
	}
	return d
}

func (d *Deltas) Get(key string) int64 {
	b, ok := d.base[key]
	if !ok {
		panic("Deltas.Get: key was not registered: " + key)
	}
	return Counter(key) - b
}

// Table-level counter keys.
const (
	KeyIn         = "unit=Metric.direction=in"
	KeyInvalid    = "unit=Err.type=invalid"
	KeyOutOfOrder = "unit=Err.type=out_of_order"
	KeyBlacklist  = "unit=Metric.direction=blacklist"
	KeyUnroutable = "unit=Metric.direction=unroutable"
	KeyAggTooOld  = "module=aggregator.unit=Metric.what=TooOld"
)

func KeyDestDropNoConn(destKey string) string {
	return "dest=" + destKey + ".unit=Metric.action=drop.reason=conn_down_no_spool"
}
func KeyDestDropSlowConn(destKey string) string {
	return "dest=" + destKey + ".unit=Metric.action=drop.reason=slow_conn"
}
func KeyDestDropSlowSpool(destKey string) string {
	return "dest=" + destKey + ".unit=Metric.action=drop.reason=slow_spool"
}
func KeyDestOut(destKey string) string { return "dest=" + destKey + ".unit=Metric.direction=out" }
func KeyDestBadPickle(destKey string) string {
	return "dest=" + destKey + ".unit=Metric.action=drop.reason=bad_pickle"
}
func KeyAggIn(aggKey string) string  { return "unit=Metric.direction=in.aggregator=" + aggKey }
func KeyAggOut(aggKey string) string { return "unit=Metric.direction=out.aggregator=" + aggKey }
