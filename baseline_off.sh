#!/bin/bash
# Runs the repository's pinned test suite with the `verif` guard OFF.
. "$(dirname "$0")/env.sh"
REPO=${VERIF_REPO:-/repo}
cd "$REPO" || exit 2
go build ./... || exit 1
exec go test -json -vet=off -count=1 -timeout 25m ./...
