#!/usr/bin/env python3
"""CPython side of C16 (and usable by C05): decodes what a pickle-mode destination put on the wire.

Driven by the Go check binary, one process per run. Requests on stdin, one JSON header line each, answers
one JSON line each on stdout:

  {"cmd": "stream", "id": n, "len": N}\\n followed by N raw bytes
      The bytes must be a sequence of frames  struct.pack('>I', len(p)) + p ; every p is given to
      pickle.loads (encoding='bytes', so that python-2 style byte-string names come back as they are).
      answer: {"id": n, "frames": [ f, ... ], "rest": <bytes left over after the last complete frame>,
               "rest_hex": <first 64 of them>}
      f = {"e": "<exception>"}                                        pickle.loads raised
        | {"s": "<why>", "r": "<repr>"}                                not [(name, (int, float))]
        | {"n": <name bytes hex>, "nt": "bytes"|"str", "t": <int as decimal string>, "v": <'>d' bytes hex>,
           "h": <float.hex()>, "u": true|false}     u: pickle.loads(p, encoding='utf-8') gives the same
                                                     name as text (what a python-3 carbon does); null when the
                                                     name is not valid utf-8
  {"cmd": "floats", "id": n, "tokens": [..]}
      answer: {"id": n, "bits": [ <'>d' hex of float(token)> | null if python cannot parse it ]}
  {"cmd": "quit"}
"""
import json
import pickle
import struct
import sys


def decode_frame(p):
    try:
        obj = pickle.loads(p, encoding="bytes")
    except Exception as e:  # noqa: any failure of the unpickler is a finding for the caller
        return {"e": "%s: %s" % (type(e).__name__, e)}
    r = repr(obj)[:200]
    if type(obj) is not list:
        return {"s": "top-level object is %s, not list" % type(obj).__name__, "r": r}
    if len(obj) != 1:
        return {"s": "list of %d items, not 1" % len(obj), "r": r}
    it = obj[0]
    if type(it) is not tuple or len(it) != 2:
        return {"s": "item is not a 2-tuple", "r": r}
    name, data = it
    if type(data) is not tuple or len(data) != 2:
        return {"s": "item[1] is not a 2-tuple", "r": r}
    ts, val = data
    if type(name) is bytes:
        nb, nt = name, "bytes"
    elif type(name) is str:
        nb, nt = name.encode("utf-8", "surrogatepass"), "str"
    else:
        return {"s": "name is %s" % type(name).__name__, "r": r}
    if type(ts) is not int:
        return {"s": "timestamp is %s, not int" % type(ts).__name__, "r": r}
    if type(val) is not float:
        return {"s": "value is %s, not float" % type(val).__name__, "r": r}
    u = None
    try:
        txt = nb.decode("utf-8")
    except UnicodeDecodeError:
        txt = None
    if txt is not None:
        try:
            o2 = pickle.loads(p, encoding="utf-8")
            u = (type(o2) is list and len(o2) == 1 and o2[0][0] == txt and o2[0][1][0] == ts
                 and struct.pack(">d", o2[0][1][1]) == struct.pack(">d", val))
        except Exception:
            u = False
    return {"n": nb.hex(), "nt": nt, "t": str(ts), "v": struct.pack(">d", val).hex(), "h": val.hex(), "u": u}


def do_stream(data):
    frames = []
    pos = 0
    n = len(data)
    while n - pos >= 4:
        (ln,) = struct.unpack(">I", data[pos:pos + 4])
        if n - pos - 4 < ln:
            break
        frames.append(decode_frame(data[pos + 4:pos + 4 + ln]))
        pos += 4 + ln
    return frames, data[pos:]


def main():
    inp = sys.stdin.buffer
    out = sys.stdout
    while True:
        line = inp.readline()
        if not line:
            return
        req = json.loads(line)
        cmd = req.get("cmd")
        if cmd == "quit":
            return
        if cmd == "stream":
            data = inp.read(req["len"]) if req["len"] else b""
            frames, rest = do_stream(data)
            ans = {"id": req["id"], "frames": frames, "rest": len(rest), "rest_hex": rest[:64].hex()}
        elif cmd == "floats":
            bits = []
            for t in req["tokens"]:
                try:
                    bits.append(struct.pack(">d", float(t)).hex())
                except ValueError:
                    bits.append(None)
            ans = {"id": req["id"], "bits": bits}
        else:
            ans = {"error": "unknown cmd"}
        out.write(json.dumps(ans))
        out.write("\n")
        out.flush()


if __name__ == "__main__":
    main()
