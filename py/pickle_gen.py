#!/usr/bin/env python3
"""CPython side of C13: turns case descriptions into pickle frames + the equivalent plain text.

Driven by the Go check binary (one process per run, streaming):

  stdin : one JSON object per line (a "connection"):
          {"id": n, "frames": [ {"mode": "py3"|"py2", "proto": 0..4, "top": "list"|"tuple_of_list",
                                 "items": [ item, ... ]} ... ]}
          item = {"shape": "ok" | <broken shape>, "ot": "t"|"l", "it": "t"|"l",
                  "n":  {"k": "u"|"b"|"s", "x": <hex of utf-8 / raw bytes>},   u=unicode str, b=python-3 bytes,
                                                                                s=python-2 str (byte string)
                  "ts": {"k": "i"|"L"|"f"|"s", "v": <decimal | float.hex | text>},  L = python-2 long
                  "v":  same,
                  "same": j      (optional) reuse the very same object as item j of this frame (memo GET)
                  "nop"/"tsop"/"vop": (py2 only) force an opcode: STRING BINSTRING SHORT_BINSTRING UNICODE BINUNICODE
                                      INT LONG LONG1 BININT BININT1 BININT2 FLOAT BINFLOAT}
  stdout: per connection  >I id, >I nframes, then per frame  >I len + frame bytes (4-byte big-endian length
          prefix included, i.e. struct.pack('>I', len(p)) + p)  and  >I len + plain text ("name value ts\\n" for
          every well-formed item, tokens = str(int) / repr(float) / the string itself, name bytes verbatim).

mode py3: p = pickle.dumps(list_of_items, protocol=proto) with real CPython 3 objects.
mode py2: a transcription of Python 2.7's pickle.py save_* routines (protocol 0/1/2: STRING / BINSTRING /
          SHORT_BINSTRING names, INT / LONG / LONG1 numbers, PUT/BINPUT memo) for what CPython 3 no longer emits;
          every stream is checked by loading it back with CPython 3 (encoding='bytes').
"""
import json
import pickle
import struct
import sys

BROKEN_SHAPES = ("arity1", "arity3", "inner1", "inner3", "none", "dict", "int", "str", "name_int", "name_none",
                 "name_float", "inner_none", "inner_num", "inner_dict", "val_none", "ts_none", "val_list", "ts_dict")


# ---------------------------------------------------------------- python 2 object model

class P2Str(bytes):
    """python 2 str (byte string)"""
    op = None


class P2Uni(str):
    """python 2 unicode"""
    op = None


class P2Int(int):
    """python 2 int"""
    op = None


class P2Long(int):
    """python 2 long"""
    op = None


class P2Float(float):
    op = None


def py2_repr_str(b):
    """repr() of a python 2 byte string"""
    quote = "'"
    if b"'" in b and b'"' not in b:
        quote = '"'
    out = [quote]
    for c in b:
        ch = chr(c)
        if ch == quote or ch == "\\":
            out.append("\\" + ch)
        elif ch == "\t":
            out.append("\\t")
        elif ch == "\n":
            out.append("\\n")
        elif ch == "\r":
            out.append("\\r")
        elif c < 0x20 or c >= 0x7f:
            out.append("\\x%02x" % c)
        else:
            out.append(ch)
    out.append(quote)
    return "".join(out).encode("latin-1")


def encode_long(x):
    """two's complement little endian, as pickle.encode_long"""
    if x == 0:
        return b""
    nbytes = (x.bit_length() >> 3) + 1
    result = x.to_bytes(nbytes, byteorder="little", signed=True)
    if x < 0 and nbytes > 1:
        if result[-1] == 0xff and (result[-2] & 0x80) != 0:
            result = result[:-1]
    return result


class Py2Pickler:
    """transcription of Python 2.7 Lib/pickle.py (Pickler) for the types a carbon client sends"""

    BATCH = 1000

    def __init__(self, proto):
        self.proto = proto
        self.bin = proto >= 1
        self.out = []
        self.memo = {}
        self.keep = []

    def write(self, b):
        self.out.append(b)

    def dump(self, obj):
        if self.proto >= 2:
            self.write(b"\x80" + bytes([self.proto]))
        self.save(obj)
        self.write(b".")
        return b"".join(self.out)

    def put(self, i):
        if self.bin:
            if i < 256:
                return b"q" + bytes([i])
            return b"r" + struct.pack("<i", i)
        return b"p" + repr(i).encode() + b"\n"

    def get(self, i):
        if self.bin:
            if i < 256:
                return b"h" + bytes([i])
            return b"j" + struct.pack("<i", i)
        return b"g" + repr(i).encode() + b"\n"

    def memoize(self, obj):
        n = len(self.memo)
        self.write(self.put(n))
        self.memo[id(obj)] = n
        self.keep.append(obj)

    def save(self, obj):
        x = self.memo.get(id(obj))
        if x is not None:
            self.write(self.get(x))
            return
        if obj is None:
            self.write(b"N")
        elif isinstance(obj, P2Str):
            self.save_string(obj)
        elif isinstance(obj, P2Uni):
            self.save_unicode(obj)
        elif isinstance(obj, P2Long):
            self.save_long(obj)
        elif isinstance(obj, P2Int):
            self.save_int(obj)
        elif isinstance(obj, float):
            self.save_float(obj)
        elif isinstance(obj, tuple):
            self.save_tuple(obj)
        elif isinstance(obj, list):
            self.save_list(obj)
        elif isinstance(obj, dict):
            self.save_dict(obj)
        else:
            raise TypeError("py2 pickler: unsupported %r" % type(obj))

    def save_int(self, obj):
        op = getattr(obj, "op", None)
        v = int(obj)
        if op:
            return self.forced_number(op, v)
        if self.bin:
            if v >= 0:
                if v <= 0xff:
                    self.write(b"K" + bytes([v]))
                    return
                if v <= 0xffff:
                    self.write(b"M" + struct.pack("<H", v))
                    return
            high = v >> 31
            if high == 0 or high == -1:
                self.write(b"J" + struct.pack("<i", v))
                return
        self.write(b"I" + repr(v).encode() + b"\n")

    def save_long(self, obj):
        op = getattr(obj, "op", None)
        v = int(obj)
        if op:
            return self.forced_number(op, v)
        if self.proto >= 2:
            b = encode_long(v)
            n = len(b)
            if n < 256:
                self.write(b"\x8a" + bytes([n]) + b)
            else:
                self.write(b"\x8b" + struct.pack("<i", n) + b)
            return
        self.write(b"L" + repr(v).encode() + b"L\n")

    def forced_number(self, op, v):
        if op == "INT":
            self.write(b"I" + repr(v).encode() + b"\n")
        elif op == "LONG":
            self.write(b"L" + repr(v).encode() + b"L\n")
        elif op == "LONG1":
            b = encode_long(v)
            if len(b) > 255:
                raise ValueError("LONG1 too long")
            self.write(b"\x8a" + bytes([len(b)]) + b)
        elif op == "BININT":
            self.write(b"J" + struct.pack("<i", v))
        elif op == "BININT1":
            self.write(b"K" + bytes([v]))
        elif op == "BININT2":
            self.write(b"M" + struct.pack("<H", v))
        else:
            raise ValueError("bad forced number opcode " + op)

    def save_float(self, obj):
        op = getattr(obj, "op", None)
        v = float(obj)
        binary = self.bin
        if op == "FLOAT":
            binary = False
        elif op == "BINFLOAT":
            binary = True
        if binary:
            self.write(b"G" + struct.pack(">d", v))
        else:
            self.write(b"F" + repr(v).encode() + b"\n")

    def save_string(self, obj):
        op = getattr(obj, "op", None)
        b = bytes(obj)
        n = len(b)
        if op is None:
            if self.bin:
                op = "SHORT_BINSTRING" if n < 256 else "BINSTRING"
            else:
                op = "STRING"
        if op == "SHORT_BINSTRING":
            if n > 255:
                op = "BINSTRING"
            else:
                self.write(b"U" + bytes([n]) + b)
        if op == "BINSTRING":
            self.write(b"T" + struct.pack("<i", n) + b)
        elif op == "STRING":
            self.write(b"S" + py2_repr_str(b) + b"\n")
        self.memoize(obj)

    def save_unicode(self, obj):
        op = getattr(obj, "op", None)
        s = str(obj)
        if op is None:
            op = "BINUNICODE" if self.bin else "UNICODE"
        if op == "BINUNICODE":
            e = s.encode("utf-8")
            self.write(b"X" + struct.pack("<i", len(e)) + e)
        else:
            s = s.replace("\\", "\\u005c").replace("\n", "\\u000a")
            self.write(b"V" + s.encode("raw-unicode-escape") + b"\n")
        self.memoize(obj)

    def save_tuple(self, obj):
        n = len(obj)
        if n == 0:
            self.write(b")" if self.proto else b"(t")
            return
        if n <= 3 and self.proto >= 2:
            for e in obj:
                self.save(e)
            self.write({1: b"\x85", 2: b"\x86", 3: b"\x87"}[n])
            self.memoize(obj)
            return
        self.write(b"(")
        for e in obj:
            self.save(e)
        self.write(b"t")
        self.memoize(obj)

    def save_list(self, obj):
        if self.bin:
            self.write(b"]")
        else:
            self.write(b"(l")
        self.memoize(obj)
        if not self.bin:
            for x in obj:
                self.save(x)
                self.write(b"a")
            return
        i = 0
        while i < len(obj):
            tmp = obj[i:i + self.BATCH]
            i += self.BATCH
            if len(tmp) > 1:
                self.write(b"(")
                for x in tmp:
                    self.save(x)
                self.write(b"e")
            elif tmp:
                self.save(tmp[0])
                self.write(b"a")

    def save_dict(self, obj):
        if self.bin:
            self.write(b"}")
        else:
            self.write(b"(d")
        self.memoize(obj)
        items = list(obj.items())
        if not self.bin:
            for k, v in items:
                self.save(k)
                self.save(v)
                self.write(b"s")
            return
        if len(items) > 1:
            self.write(b"(")
            for k, v in items:
                self.save(k)
                self.save(v)
            self.write(b"u")
        elif items:
            k, v = items[0]
            self.save(k)
            self.save(v)
            self.write(b"s")


def plain_of(x):
    """what python 3 loads(encoding='bytes') gives back for a py2 model object"""
    if isinstance(x, P2Str):
        return bytes(x)
    if isinstance(x, P2Uni):
        return str(x)
    if isinstance(x, (P2Int, P2Long)):
        return int(x)
    if isinstance(x, P2Float):
        return float(x)
    if isinstance(x, tuple):
        return tuple(plain_of(e) for e in x)
    if isinstance(x, list):
        return [plain_of(e) for e in x]
    if isinstance(x, dict):
        return {plain_of(k): plain_of(v) for k, v in x.items()}
    return x


def same_obj(a, b):
    """equality that treats nan == nan and distinguishes -0.0 / int vs float"""
    if type(a) is not type(b):
        return False
    if isinstance(a, float):
        return struct.pack(">d", a) == struct.pack(">d", b) or (a != a and b != b)
    if isinstance(a, (tuple, list)):
        return len(a) == len(b) and all(same_obj(x, y) for x, y in zip(a, b))
    if isinstance(a, dict):
        return a.keys() == b.keys() and all(same_obj(a[k], b[k]) for k in a)
    return a == b


# ---------------------------------------------------------------- building objects from descriptions

class Builder:
    def __init__(self, py2):
        self.py2 = py2
        self.cache = {}  # (kind, text) -> shared object, so that repeated strings become memo references

    def name(self, d, op=None):
        raw = bytes.fromhex(d["x"])
        k = d["k"]
        key = ("n", k, raw, op)
        if key in self.cache:
            return self.cache[key], raw
        if self.py2:
            if k == "u":
                o = P2Uni(raw.decode("utf-8"))
            else:
                o = P2Str(raw)
            o.op = op
        else:
            if k == "u":
                o = raw.decode("utf-8")
            elif k == "b":
                o = raw
            else:
                raise ValueError("python-2 str name in py3 mode")
        self.cache[key] = o
        return o, raw

    def scalar(self, d, op=None):
        """returns (object, plain text token bytes)"""
        k, v = d["k"], d["v"]
        if k in ("i", "L"):
            n = int(v)
            if self.py2:
                o = P2Long(n) if k == "L" else P2Int(n)
                o.op = op
            else:
                o = n
            return o, str(n).encode()
        if k == "f":
            f = float.fromhex(v) if v not in ("nan", "inf", "-inf") else float(v)
            if self.py2:
                o = P2Float(f)
                o.op = op
            else:
                o = f
            return o, repr(f).encode()
        if k == "s":
            key = ("s", v)
            if key not in self.cache:
                if self.py2:
                    self.cache[key] = P2Str(v.encode("utf-8"))
                else:
                    self.cache[key] = v
            return self.cache[key], v.encode("utf-8")
        raise ValueError("bad scalar kind %r" % k)

    def item(self, d):
        """returns (object, plain line or None)"""
        shape = d["shape"]
        outer = tuple if d.get("ot", "t") == "t" else list
        inner = tuple if d.get("it", "t") == "t" else list
        nm, raw = self.name(d["n"], d.get("nop")) if "n" in d else (None, b"")
        ts, tstok = self.scalar(d["ts"], d.get("tsop")) if "ts" in d else (None, b"")
        val, valtok = self.scalar(d["v"], d.get("vop")) if "v" in d else (None, b"")
        sk = (lambda s: P2Str(s.encode())) if self.py2 else (lambda s: s)
        ik = (lambda n: P2Int(n)) if self.py2 else (lambda n: n)
        if shape == "ok":
            return outer((nm, inner((ts, val)))), raw + b" " + valtok + b" " + tstok + b"\n"
        if shape == "arity1":
            return outer((nm,)), None
        if shape == "arity3":
            return outer((nm, inner((ts, val)), ik(7))), None
        if shape == "inner1":
            return outer((nm, inner((ts,)))), None
        if shape == "inner3":
            return outer((nm, inner((ts, val, val)))), None
        if shape == "none":
            return None, None
        if shape == "dict":
            return {sk("name"): nm, sk("ts"): ts, sk("value"): val}, None
        if shape == "int":
            return ik(42), None
        if shape == "str":
            return nm, None
        if shape == "name_int":
            return outer((ik(12345), inner((ts, val)))), None
        if shape == "name_none":
            return outer((None, inner((ts, val)))), None
        if shape == "name_float":
            return outer(((P2Float(1.5) if self.py2 else 1.5), inner((ts, val)))), None
        if shape == "inner_none":
            return outer((nm, None)), None
        if shape == "inner_num":
            return outer((nm, val)), None
        if shape == "inner_dict":
            return outer((nm, {sk("ts"): ts, sk("v"): val})), None
        if shape == "val_none":
            return outer((nm, inner((ts, None)))), None
        if shape == "ts_none":
            return outer((nm, inner((None, val)))), None
        if shape == "val_list":
            return outer((nm, inner((ts, [val])))), None
        if shape == "ts_dict":
            return outer((nm, inner(({sk("t"): ts}, val)))), None
        raise ValueError("unknown shape " + shape)


def build_frame(fd):
    py2 = fd.get("mode", "py3") == "py2"
    proto = int(fd["proto"])
    b = Builder(py2)
    objs, plain = [], []
    for d in fd["items"]:
        if "same" in d and 0 <= d["same"] < len(objs):
            j = d["same"]
            objs.append(objs[j])
            plain.append(plain[j])
            continue
        o, line = b.item(d)
        objs.append(o)
        plain.append(line)
    top = objs
    if fd.get("top", "list") == "tuple_of_list":
        top = (objs,)
    if py2:
        if proto > 2:
            raise ValueError("python 2 has no protocol %d" % proto)
        p = Py2Pickler(proto).dump(top)
        back = pickle.loads(p, encoding="bytes")
        if not same_obj(back, plain_of(top)):
            raise AssertionError("hand-assembled python-2 stream does not load back to the intended object: %r" % (p,))
    else:
        p = pickle.dumps(top, protocol=proto)
    text = b"".join(x for x in plain if x is not None)
    return struct.pack(">I", len(p)) + p, text


def main():
    out = sys.stdout.buffer
    for line in sys.stdin.buffer:
        line = line.strip()
        if not line:
            continue
        c = json.loads(line)
        frames = [build_frame(fd) for fd in c["frames"]]
        rec = [struct.pack(">II", c["id"], len(frames))]
        for fb, text in frames:
            rec.append(struct.pack(">I", len(fb)))
            rec.append(fb)
            rec.append(struct.pack(">I", len(text)))
            rec.append(text)
        out.write(b"".join(rec))
        out.flush()


if __name__ == "__main__":
    main()
