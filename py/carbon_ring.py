#!/usr/bin/env python3
"""Transcription of carbon 0.9.x lib/carbon/hashing.py (ConsistentHashRing) plus the way
carbon-relay.py's ConsistentHashingRouter uses it, made runnable under python3.

Used by check C15 to cross-check the Go reference ring (harness/oracle/ring.go) on every run.

Differences from the Python 2 original, all forced by python3 and none changing behaviour:
  * md5() needs bytes: the key is passed as bytes (metric names) or str.encode('latin-1').
  * Python 2 compares None with tuples/strings (None is smaller than everything); python3 raises
    TypeError. The ring is a sorted list of (position, (server, instance)) tuples searched with
    (position, None), so the Python 2 order is supplied explicitly (py2_cmp) to bisect.
  * generator.next() -> next(generator).

stdin : JSON {"rings":[{"nodes":[[host, instance|null],...],
                        "ops":[["add",[host,inst]] | ["del",[host,inst]], ...],
                        "names":[hex,...]}]}
stdout: JSON {"rings":[{"steps":[[node index per name], ...]}]}   one step for the initial ring and
        one per op; a node is reported as its index in the list nodes + added nodes (in order of
        first appearance).
"""
import bisect
import functools
import json
import sys
from hashlib import md5


def py2_cmp(a, b):
    """cmp() of Python 2 for the value kinds that occur in the ring: None, int, str, tuple."""
    if a is None and b is None:
        return 0
    if a is None:
        return -1
    if b is None:
        return 1
    if isinstance(a, tuple) and isinstance(b, tuple):
        for x, y in zip(a, b):
            c = py2_cmp(x, y)
            if c:
                return c
        return (len(a) > len(b)) - (len(a) < len(b))
    if type(a) is type(b) and isinstance(a, (int, str)):
        return (a > b) - (a < b)
    raise TypeError("py2_cmp: unexpected operands %r %r" % (a, b))


K = functools.cmp_to_key(py2_cmp)


class ConsistentHashRing:
    def __init__(self, nodes, replica_count=100):
        self.ring = []
        self.nodes = set()
        self.replica_count = replica_count
        for node in nodes:
            self.add_node(node)

    def compute_ring_position(self, key):
        if isinstance(key, str):
            key = key.encode('latin-1')
        big_hash = md5(key).hexdigest()
        small_hash = int(big_hash[:4], 16)
        return small_hash

    def add_node(self, node):
        self.nodes.add(node)
        for i in range(self.replica_count):
            replica_key = "%s:%d" % (node, i)
            position = self.compute_ring_position(replica_key)
            entry = (position, node)
            bisect.insort(self.ring, entry, key=K)

    def remove_node(self, node):
        self.nodes.discard(node)
        self.ring = [entry for entry in self.ring if entry[1] != node]

    def get_node(self, key):
        assert self.ring
        node = None
        node_iter = self.get_nodes(key)
        node = next(node_iter)
        node_iter.close()
        return node

    def get_nodes(self, key):
        assert self.ring
        nodes = set()
        position = self.compute_ring_position(key)
        search_entry = (position, None)
        index = bisect.bisect_left(self.ring, K(search_entry), key=K) % len(self.ring)
        last_index = (index - 1) % len(self.ring)
        while len(nodes) < len(self.nodes) and index != last_index:
            next_entry = self.ring[index]
            (position, next_node) = next_entry
            if next_node not in nodes:
                nodes.add(next_node)
                yield next_node

            index = (index + 1) % len(self.ring)


def main():
    req = json.load(sys.stdin)
    out = []
    for r in req["rings"]:
        known = []

        def idx(node):
            if node not in known:
                known.append(node)
            return known.index(node)

        nodes = [(h, i) for h, i in r["nodes"]]
        for n in nodes:
            idx(n)
        # carbon-relay: router.addDestination() -> ring.add_node((server, instance)), in listing order
        ring = ConsistentHashRing([])
        for n in nodes:
            ring.add_node(n)
        names = [bytes.fromhex(h) for h in r["names"]]
        steps = [[idx(ring.get_node(nm)) for nm in names]]
        for op, node in r.get("ops", []):
            node = (node[0], node[1])
            idx(node)
            if op == "add":
                ring.add_node(node)
            else:
                ring.remove_node(node)
            steps.append([idx(ring.get_node(nm)) for nm in names])
        out.append({"steps": steps})
    json.dump({"rings": out}, sys.stdout)


if __name__ == "__main__":
    main()
