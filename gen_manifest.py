#!/usr/bin/env python3
"""Regenerates MANIFEST.json from the table below (run after adding a check)."""
import json, os, subprocess

VERIF = os.path.dirname(os.path.abspath(__file__))

# id -> (level, technique, text, note, design section)
CHECKS = {
    "C05": ("exploration",
            "runtime monitoring: offline stream oracle (subsequence of unique hand-offs, order, framing) + conservation identity over counters, real destination to loopback endpoint, under -race",
            "A real carbon route built from a command string (iobuf 1B..2MB, connbuf 1..30000, flush 1..100ms, plain and pickle) sends unique lines of generated lengths (5B..4x iobuf) in bursts and trickles to a loopback endpoint that records the byte stream; offline the stream must be exactly the handed lines (or one >I-prefixed pickle per line), each once, in hand-off order, newline-terminated, no tearing/merging; absent lines == slow_conn counter delta; direction=out == lines received. Held on the configurations and schedules produced.",
            "Healthy = loopback endpoint reading as fast as it can; runs with a reconnect are set aside as inconclusive; pickle frames decoded with og-rek here (CPython decoding is C16).",
            "DESIGN.md §4 C05"),
    "C06": ("exploration",
            "runtime monitoring: stall detector over every Table.Dispatch call (two stack samples of a parked goroutine) + conservation identities at steady states, scripted misbehaving endpoints, under -race",
            "Fourteen endpoint scripts (absent, refuse-then-appear, black hole, throttled, healthy with tiny buffers / 8 dispatchers, abortive and graceful close early/late, appear-then-abort) x generated queue/buffer settings; 1-8 dispatchers push traffic beyond every buffer through a real table with a second healthy route; every Dispatch call is timed and a call in flight beyond the stall bound is a violation only when its goroutine is parked at the same repo frame in two samples; at steady states handed == received + slow_conn (connection up) and handed == conn_down_no_spool (down, no spool); the second route must see every line.",
            "'Never' restated as bounded progress over the N hand-offs observed; identities only asserted in steady states; slow-but-returning calls on a loaded machine are reported inconclusive.",
            "DESIGN.md §4 C06"),
    "C07": ("exploration",
            "runtime monitoring: set-difference oracle over unique line ids per outage schedule + drop counters, seeded scheduling delays injected at tag-guarded hook points, under -race",
            "Up/down schedules of a loopback endpoint (outage before first connect, single/repeated outages, outage during unspooling, graceful and abortive closes) with traffic running across every transition against a real destination with spool=true; after the last recovery the backlog is awaited by bounded steps (spool backlog accessor + received set); the number of distinct lines never received must be <= slow_conn + slow_spool deltas, every complete received line must be a handed one, conn_down_no_spool must stay 0. Seeded 0-3 ms delays at the destination hook points force the conn-writer / redo-collector / spool-writer hand-over to interleave on every run.",
            "Duplicates allowed, order not checked; outages are detected immediately on loopback so the >2x keep-safe-period case is not reproduced; backlog read through an overlay accessor.",
            "DESIGN.md §4 C07"),
    "C08": ("fault_enumeration",
            "runtime monitoring with fault enumeration: every crash-point hook firing of generated histories snapshots the spool directory; a child reopens it with the real code; oracle over delivered run vs E/H/Hs/S; real SIGKILL sample",
            "Every firing of the tag-guarded crash-point hook (after each file write, fsync, meta tmp create/write, rename, segment remove, bad-file rename, rollover, and at rest) in every generated put/get history is treated as the instant the relay dies: the directory is copied, a child process reopens it with the real DiskQueue, drains it and the delivered run is judged against what the harness knew at that instant (contiguous byte-identical run, starts no later than the first unhanded message and no earlier than what was consumed at the last completed sync, reaches the last message written before that sync); then fresh messages are enqueued and drained. A sample of histories is also run in a child that really SIGKILLs itself at the point. Enumerates all crash points of the histories generated, not all histories.",
            "Process death only (page cache survives); hook placement covers every filesystem mutation in diskqueue.go (checked by reading); tmpfs.",
            "DESIGN.md §4 C08"),
    "C09": ("exploration",
            "runtime monitoring: real DiskQueue driven step-by-step, reference FIFO model + depth invariant at idle-hook quiescent points, under -race",
            "Random operation histories (put/get/close+reopen, sizes 0..3 segments, segment limit from 1 byte, syncEvery from 1) are executed against the real nsqd.DiskQueue; after every operation the I/O loop is awaited at its idle point and every delivered message, Depth() and the ready/empty state are compared with a slice model; plus concurrent producer histories checked for per-producer order and exactly-once. Held-on-N-histories, not a proof.",
            "Trusts the tag-guarded idle hook placement, tmpfs as the filesystem, and that a clean restart is Close()+NewDiskQueue in one process.",
            "DESIGN.md §4 C09"),
    "C14": ("exploration",
            "runtime monitoring of the real relay binary (-race) as a child process: exit status + output scan + liveness probe after every hostile batch; every batch logged before it is sent",
            "The real binary is started on generated TOML configurations (documented options with boundary values); once listening it receives batches of hostile bytes on the plain TCP, UDP and pickle ports, boundary / mutated / random admin commands on the TCP admin port and HTTP admin DELETEs, each followed by valid traffic exercising what was built and a `view` probe; any exit, Go panic or fatal error after the listeners are up (or a Go panic at start-up) is a violation whose witness is the configuration and the last batches. AMQP bodies go through the real consume loop in an in-process child. A universal negative: the evidence lists what was tried.",
            "Exit before listening with an error message = configuration rejected (allowed); buffer sizes kept below what the machine can allocate; no AMQP/Kafka/PubSub services here.",
            "DESIGN.md §4 C14"),
    "C18": ("exploration",
            "runtime monitoring: snapshot-immutability invariant at white-box accessor, forced interleavings via tag-guarded after-load hooks with exact delivery counts, free-running dispatch x admin ops under the race detector (reports scoped to mutator-vs-dispatch), sequential model of the table view",
            "A: slices loaded from the table/route snapshot are compared element-wise after every delete (all list lengths 1..6 x indexes, five list kinds, add/delete histories). B: a dispatcher is held right after loading the snapshot while the delete happens, then released: every entry that exists before and after must see the line exactly once (capture routes, non-idempotent rewriters, counting aggregators, real destinations, real route deleted); a dispatcher that never returns is confirmed with two stack samples. C: 8 dispatchers x random admin operations: stable routes/destinations must get every line exactly once; race reports with one side in a mutator and the other in a dispatch path count. E: Table.Snapshot() vs model after each operation of random histories (index >= len rejected, unknown route no-op).",
            "Capture routes stand for routes at table level; refusing-port destinations make each hand-off visible once in a counter; forced interleavings cover the after-load point only.",
            "DESIGN.md §4 C18"),
}

NOT_APPLICABLE = {
}


def main():
    hooks = subprocess.run(["git", "-C", "/repo", "log", "--format=%H %s", "--grep=^verif hooks:"],
                           stdout=subprocess.PIPE, text=True).stdout.split("\n")
    commits = [l.split()[0] for l in hooks if l.strip()]
    props = [json.loads(l)["id"] for l in open(os.path.join(VERIF, "properties.jsonl"))]
    checks = []
    for cid in props:
        if cid not in CHECKS:
            continue
        level, tech, text, note, ref = CHECKS[cid]
        checks.append({
            "property_id": cid,
            "quick_cmd": "./check %s --tier quick" % cid,
            "thorough_cmd": "./check %s --tier thorough" % cid,
            "evidence_file": "/verif/evidence/%s.json" % cid,
            "replay_cmd_template": "./check %s --replay {path}" % cid,
            "engine": "harness",
            "level_claimed": {"category": level, "text": text, "design_ref": ref},
            "level_note": note,
            "technique": tech,
        })
    na = []
    for cid in props:
        if cid in CHECKS:
            continue
        reason = NOT_APPLICABLE.get(cid, "check not built yet in this round (runtime-monitoring design exists in DESIGN.md §4); not claimed")
        na.append({"property_id": cid, "reason": reason})
    man = {
        "version": 1,
        "setup_cmd": "./setup.sh",
        "hooks": {
            "guard": "verif",
            "enable": "go build -race -tags verif (plus -overlay of /verif/access/<pkg>/*.go.txt read-only accessors); hook handlers are installed by the harness at run time",
            "baseline_off_cmd": "./baseline_off.sh",
            "source_commits": commits,
            "add_only": True,
        },
        "engines": [{
            "name": "harness",
            "path": "/verif/harness",
            "serves_properties": [c["property_id"] for c in checks],
            "kind_free_text": "Go harness (module verifharness, replace carbon-relay-ng => /repo working tree) built per check with -race -tags verif; python driver ./check builds, runs children under a watchdog, classifies crashes and race reports, applies KNOWN_FINDINGS.txt and writes evidence",
        }],
        "checks": checks,
        "not_applicable": na,
        "notes": "Technique family: runtime monitoring and sanitizers only. Exit 2 from a check = machinery failure / inconclusive, never a verdict. See DESIGN.md.",
    }
    with open(os.path.join(VERIF, "MANIFEST.json"), "w") as f:
        json.dump(man, f, indent=1)
    print("MANIFEST.json: %d checks, %d not_applicable" % (len(checks), len(na)))


if __name__ == "__main__":
    main()
