#!/usr/bin/env python3
"""Regenerates MANIFEST.json from the table below (run after adding a check)."""
import json, os, subprocess

VERIF = os.path.dirname(os.path.abspath(__file__))

# id -> (level, technique, text, note, design section)
CHECKS = {
    "C01": ("exploration",
            "runtime monitoring: real Table/routes/destinations driven with generated tables and lines, reference pipeline model, capture routes + per-destination/table/aggregation counter deltas behind Flush/FIFO-sentinel barriers, sequential per-line attribution and 8-way concurrent multisets, under -race",
            "Generated tables (0-4 blacklist entries, 0-3 rewriters, 0-3 never-flushing aggregations some drop-raw, 1-6 routes of capture/sendAllMatch/sendFirstMatch/consistentHashing with 1-4 refusing destinations, all six filter options over a six-letter alphabet) receive generated lines; for every line the routes and destinations that were handed it and the in/invalid/blacklist/unroutable and aggregation-input counter movements are compared with a model written from the property and docs, per line sequentially and as multisets after 8-way concurrent dispatch. Held on N tables x lines, not a proof. A second part modifies generated tables at run time (UpdateRoute/UpdateDestination setting or clearing each option, DelDestination at any index, destinations and routes added and deleted) and attributes a batch of lines after every operation against the model changed by the same operation.",
            "A refusing destination with spool=false counts each hand-off once in conn_down_no_spool and Table.Flush() orders that count; which consistent-hashing destination takes a line is left to C15; filters and names stay within a small alphabet; tables are reused after being emptied via Del*.",
            "DESIGN.md §4 C01"),
    "C02": ("exploration",
            "runtime monitoring: differential against carbon20.ValidatePacket with harness-derived levels plus a doc-derived validator, per-line counter and capture deltas, bad-metrics report checked last-record-per-name with bounded retries",
            "For all 3x2 level combinations written in TOML (plus omitted options, which must mean medium/medium), grammar-generated and byte-mutated lines are dispatched one at a time: forwarded iff valid, direction=in +1, type=invalid +1 iff rejected, match-all aggregation input count equals the valid lines, and every rejected name shows its last rejected text with a non-empty reason in Table.Bad().Get(1h). A load part has 8-16 concurrent dispatchers reject distinct names while viewers read the report; after the report settles (probe-based) every rejected name must be listed with its last text (thorough tier: bursts larger than the 100000-record queue of the filing goroutine).",
            "The go-metrics20 dependency is trusted as the validity reference; the doc oracle decides only on classes it marks confident, its other disagreements are informational; unparseable lines are expected under the empty name.",
            "DESIGN.md §4 C02"),
    "C03": ("exploration",
            "differential runtime monitoring against a stdlib-regexp reference conjunction; generated regexes and names; observation through counters, capture routes and forced aggregator ticks",
            "Generated (filter, name) pairs are run through the real code at six consultation points - matcher.Match and the PreMatch+MatchRegexAndExpand pair, table blacklist, route filters of all three carbon types incl. after modRoute, destination filters incl. after modDest, aggregations with cache on/off, dropRaw on/off, repeated lookups and forced cache expiry, and routing of aggregation output - and every observed decision must equal HasPrefix and not HasPrefix(notPrefix) and Contains and not Contains(notSub) and re.Match and not notRe.Match evaluated on the name, with value and timestamp tokens that contain filter material. Regexes cover optional, starred, counted and lazy atoms, alternation, escapes, classes, anchors and flags.",
            "Trusts Go's regexp as the RE2 reference and the conn_down_no_spool counter as an exact hand-off count; command-built filters exclude values the command language cannot express.",
            "DESIGN.md §4 C03"),
    "C04": ("exploration",
            "runtime monitoring: reference rewriter model compared at four consumers (capture routes, real destination endpoint, mocked aggregations) + input-buffer poisoning + retained-slice re-comparison, under -race (scoped reports)",
            "For generated tables (validation levels x 0-4 rewriters: literal / regex / not-clause / max, added by TOML or init command) and valid lines in every whitespace layout and numeric spelling, the bytes held by two capture routes, a real destination's endpoint and two mocked aggregations must equal oracleRewrite(name)+' '+value+' '+ts with the tokens byte-for-byte as received; Table.Dispatch must leave the caller's buffer untouched; every retained slice must be unchanged at the end; overwriting the input buffer with 0xAA right after Dispatch, or letting the real Plain scanner recycle it over TCP while consumers still hold the line, must change nothing; race reports touching the dispatch/rewrite/input path count.",
            "Tokens split on ASCII whitespace only; aggregators observed through output key/ts/value; regex rules share the stdlib engine with the code, so the oracle is independent for literal, max, not-clause and order semantics, not for regexp itself; completeness at destinations is C05/C06.",
            "DESIGN.md §4 C04"),
    "C05": ("exploration",
            "runtime monitoring: offline stream oracle (subsequence of unique hand-offs, order, framing) + conservation identity over counters, real destination to loopback endpoint, under -race",
            "A real carbon route built from a command string (iobuf 1B..2MB, connbuf 1..30000, flush 1..100ms, plain and pickle) sends unique lines of generated lengths (5B..4x iobuf) in bursts and trickles to a loopback endpoint that records the byte stream; offline the stream must be exactly the handed lines (or one >I-prefixed pickle per line), each once, in hand-off order, newline-terminated, no tearing/merging; absent lines == slow_conn counter delta; direction=out == lines received. Held on the configurations and schedules produced. Group cases run 3-6 destinations (mostly pickle) at once in one process with tiny I/O buffers and endpoints that pause reading; each stream is held to the same oracle for its own lines, a frame of another destination is a violation, and race reports with both stacks in the connection write path count.",
            "Healthy = loopback endpoint reading as fast as it can; runs with a reconnect are set aside as inconclusive; pickle frames decoded with og-rek here (CPython decoding is C16).",
            "DESIGN.md §4 C05"),
    "C06": ("exploration",
            "runtime monitoring: stall detector over every Table.Dispatch call (two stack samples of a parked goroutine) + conservation identities at steady states, scripted misbehaving endpoints, under -race",
            "Twenty-one endpoint scripts (absent, refuse-then-appear, black hole, throttled, healthy with tiny buffers / 8 dispatchers, abortive and graceful close early/late without and with spooling, appear-then-abort, run-time address update away from a black hole and away from a paused endpoint) x generated queue/buffer settings; 1-8 dispatchers push traffic beyond every buffer through a real table with a second healthy route; every Dispatch call is timed and a call in flight beyond the stall bound is a violation only when its goroutine is parked at the same repo frame in two samples; at steady states handed == received + slow_conn (connection up) and handed == conn_down_no_spool (down, no spool); the second route must see every line; across an address update between two healthy endpoints handed == received(old) + received(new) + slow_conn.",
            "'Never' restated as bounded progress over the N hand-offs observed; identities only asserted in steady states; slow-but-returning calls on a loaded machine are reported inconclusive.",
            "DESIGN.md §4 C06"),
    "C07": ("exploration",
            "runtime monitoring: set-difference oracle over unique line ids per outage schedule + drop counters, seeded scheduling delays injected at tag-guarded hook points, under -race",
            "Up/down schedules of a loopback endpoint (outage before first connect, single/repeated outages, outage during unspooling, graceful and abortive closes) with traffic running across every transition against a real destination with spool=true; after the last recovery the backlog is awaited by bounded steps (spool backlog accessor + received set); the number of distinct lines never received must be <= slow_conn + slow_spool deltas, every complete received line must be a handed one, conn_down_no_spool must stay 0. Seeded 0-3 ms delays at the destination hook points force the conn-writer / redo-collector / spool-writer hand-over to interleave on every run. Rotation scenarios: the endpoint stops reading shortly before the first rotation tick of the connection's keep-safe buffer, lines are handed off before and after the tick, the connection is reset: every one of them must reach the next incarnation.",
            "Duplicates allowed, order not checked; outages are detected immediately on loopback so the >2x keep-safe-period case is not reproduced; backlog read through an overlay accessor; the keep-safe period is shortened from 10 s to 2 s through an accessor and a loss counts only if the process's own scheduling lag stayed below 400 ms during the case (else inconclusive).",
            "DESIGN.md §4 C07"),
    "C08": ("fault_enumeration",
            "runtime monitoring with fault enumeration: every crash-point hook firing of generated histories snapshots the spool directory; a child reopens it with the real code; oracle over delivered run vs E/H/Hs/S; real SIGKILL sample",
            "Every firing of the tag-guarded crash-point hook (after each file write, fsync, meta tmp create/write, rename, segment remove, bad-file rename, rollover, and at rest) in every generated put/get history is treated as the instant the relay dies: the directory is copied, a child process reopens it with the real DiskQueue, drains it and the delivered run is judged against what the harness knew at that instant (contiguous byte-identical run, starts no later than the first unhanded message and no earlier than what was consumed at the last completed sync, reaches the last message written before that sync); then fresh messages are enqueued and drained. A sample of histories is also run in a child that really SIGKILLs itself at the point. Enumerates all crash points of the histories generated, not all histories.",
            "Process death only (page cache survives); hook placement covers every filesystem mutation in diskqueue.go (checked by reading); tmpfs.",
            "DESIGN.md §4 C08"),
    "C09": ("exploration",
            "runtime monitoring: real DiskQueue driven step-by-step, reference FIFO model + depth invariant at idle-hook quiescent points, under -race",
            "Random operation histories (put/get/close+reopen, sizes 0..3 segments, segment limit from 1 byte, syncEvery from 1) are executed against the real nsqd.DiskQueue; after every operation the I/O loop is awaited at its idle point and every delivered message, Depth() and the ready/empty state are compared with a slice model; plus concurrent producer histories checked for per-producer order and exactly-once. Held-on-N-histories, not a proof.",
            "Trusts the tag-guarded idle hook placement, tmpfs as the filesystem, and that a clean restart is Close()+NewDiskQueue in one process.",
            "DESIGN.md §4 C09"),
    "C10": ("exploration",
            "runtime monitoring: reference bucket model and ten re-implemented functions against a real aggregator on harness clock and tick channel, black-box serialised histories, under -race",
            "Each generated history is one deterministic interleaving (every point and tick is followed by a barrier through the aggregator's own goroutine). After every tick the emitted lines are compared with the reference model: each due (name, bucket) emitted exactly once at the first tick with tick-wait >= bucket start, timestamp = bucket start, buckets ascending, value within 1e-6*max(1,|ref|) of the function over exactly the contributed points in six-decimal rendering, six .pNN lines for percentiles; points for closed buckets must move what=TooOld and emit nothing; nothing is emitted without a tick. All ten functions, five regex/format shapes, cache on/off, boundary, late and out-of-order timestamps. Held on the histories generated.",
            "Late-but-unflushed points: any subset of those counted TooOld is accepted, those not counted must contribute; stdev is the population form; derive ties accept any tied value; clock and tick values non-decreasing; no concurrent producers inside one aggregator (race detector only).",
            "DESIGN.md §4 C10"),
    "C11": ("exploration",
            "runtime monitoring: documented pipeline model composed with the C10 bucket model against a real Table plus 2-4 real aggregators on a mocked clock and capture routes; counter-delta identities; under -race",
            "Per generated table: after each raw round every rule's direction=in counter must equal the model's complete-filter matches not withheld by an earlier drop-raw rule and every capture route must hold exactly the raw lines the model sends there; after each tick round every aggregate must arrive at exactly the routes whose filter accepts its name, un-rewritten, with the model value; invalid / out_of_order / blacklist counters must not move, no rule's in-counter may move (no feedback), direction=out must equal the model (no amplification); a final tick-only round must add nothing. Tables are regenerated until they offer self-matching or chained outputs, blacklist/rewriter hits on aggregate names, drop-raw hits and near-misses.",
            "Filter semantics evaluated with stdlib regexp/strings on the name (the relay's matcher is C03); 'cannot loop' is shown as no feedback and no amplification over the tick rounds run, not as an unbounded claim; a real feedback deadlock surfaces as inconclusive (barrier watchdog).",
            "DESIGN.md §4 C11"),
    "C12": ("exploration",
            "runtime monitoring: differential framing oracle (split model) over exhaustive and random segmentations of the real Plain handler, the real Listener over loopback TCP/UDP and the real AMQP consume loop",
            "The sequence of Dispatch arguments (copied at call time) of input.Plain must equal split(stream) for every single cut, every pair of cuts, 1-byte reads, (n>0, EOF), (n>0, timeout) on streams <= 48 B, for random segmentations of streams up to 300 KB with lines at the 65536-byte limit, over the real Listener with NODELAY paced writes and stalled writers, for UDP datagrams of 0-200 lines and for AMQP bodies through the real consumeAMQP loop (mock connector).",
            "Limit read as line length including its terminator <= 65536 (AMQP 4096); longer lines are measured, not judged; loopback only; a dropped UDP datagram is inconclusive.",
            "DESIGN.md §4 C12"),
    "C13": ("exploration",
            "runtime monitoring: differential oracle - CPython-produced pickle frames (protocols 0-4, plus a transcription of the Python 2.7 pickler) through the real input.Pickle handler vs the equivalent text through input.Plain; segmentation enumeration; invalid-item accounting; malformed-frame and concurrent-connection monitor; under -race",
            "Connections of 1-20 frames x 0-200 items (tuples/lists, unicode/byte names, int/negative/>2^31/float/str fields, repeated objects, 18 broken shapes) are fed whole, byte by byte, with every single cut when small, and randomly segmented; dispatched lines must equal the plain-text path in order (name bytes, value to 6 decimals, integer timestamp), IncNumInvalid must equal the number of broken items, 10 kinds of malformed frame must end the call with an error while a concurrent healthy connection is unaffected. Six dependency findings are listed known.",
            "CPython 3.11 is the reference encoder; names carry no whitespace; the og-rek decoder pinned in go.mod is outside this repository (known findings).",
            "DESIGN.md §4 C13"),
    "C14": ("exploration",
            "runtime monitoring of the real relay binary (-race) as a child process: exit status + output scan + liveness probe after every hostile batch; every batch logged before it is sent",
            "The real binary is started on generated TOML configurations (documented options with boundary values); once listening it receives batches of hostile bytes on the plain TCP, UDP and pickle ports, boundary / mutated / random admin commands on the TCP admin port and HTTP admin DELETEs, each followed by valid traffic exercising what was built and a `view` probe; any exit, Go panic or fatal error after the listeners are up (or a Go panic at start-up) is a violation whose witness is the configuration and the last batches; so is a race-detector report of the child in which one access is a Go map operation (the runtime kills the process when it notices one). Route deletions run while three connections stream traffic; periodic storms send valid lines on four connections at once across a second boundary. AMQP bodies go through the real consume loop in an in-process child. A universal negative: the evidence lists what was tried.",
            "Exit before listening with an error message = configuration rejected (allowed); buffer sizes kept below what the machine can allocate; no AMQP/Kafka/PubSub services here.",
            "DESIGN.md §4 C14"),
    "C15": ("exploration",
            "runtime monitoring: reference ring (cross-checked against a CPython transcription of carbon's ConsistentHashRing) compared with real consistentHashing routes through per-destination hand-off counters",
            "For generated destination sets of 2-12 (host, instance) pairs, in every listing order up to 4 destinations and several above, and along add/remove sequences, every sampled name (incl. names on tied 16-bit positions, on entry boundaries, on wrap-around) was handed to exactly one destination, the one carbon 0.9's ring picks; ownership did not depend on listing order; only keys landing on the added destination, or owned by the removed one, moved. Sampled, not exhaustive. A concurrent phase has 8 goroutines dispatch groups of names that collide on cheap hashes and live on different destinations; per-destination totals must equal the ring's, and race reports inside the hasher count.",
            "The Go reference ring is trusted as cross-checked each run against a CPython 3 transcription with emulated Python 2 None ordering; hosts are 127.x literals and never-resolving names of 12-190 characters under .invalid; destinations are permanently disconnected (spool=false) so hand-off counters are the observation; a white-box accessor adds volume but the counter path is verdict-bearing on its own.",
            "DESIGN.md §4 C15"),
    "C16": ("exploration",
            "runtime monitoring: CPython pickle.loads of bytes from a real pickle-mode destination and from Pickle(); model-generated storage-schemas files with MetricData compared white-box (parseMetric + msgp round trip) and black-box (real grafanaNet route to a snappy/msgp-decoding httptest server); bad_pickle counter identity",
            "Every float spelling and timestamp 0..2^32-1 must decode in CPython to the same name bytes, int timestamp and float64 bit pattern; unrepresentable lines must emit nothing and be counted bad_pickle. For generated rule lists (anchored, $-anchored, unanchored, tag patterns, priorities, old/new retention syntax) Name, sorted Tags, Value, Time, OrgId and Interval must match the rule model on parseMetric output, on the msgp bytes handed to sarama, and in real grafanaNet POST bodies.",
            "Kafka is decided at the parseMetric + MarshalMsg boundary only (no broker here); rule matching in the harness uses Go regexp on patterns it generated itself.",
            "DESIGN.md §4 C16"),
    "C17": ("exploration",
            "runtime monitoring: scripted-fault HTTP endpoint + decoded-delivery log + stall detector with goroutine samples, under -race",
            "Real GrafanaNet routes (concurrency 1-8, blocking on/off, small/large buffers, flushMaxNum 1-100, flushMaxWait 5-100 ms, timeout 100-300 ms) are driven with uniquely tagged points against a loopback gateway that decodes every POST (snappy, msg header, msgp) and answers from a generated per-request script (2xx in five body shapes, 4xx, 5xx, hang past the client timeout, reset before/after reading). Per case: every accepted metric is in a 2xx-answered POST after the faults stop; per series the first-acknowledgement order equals dispatch order; no failed batch is overtaken (one script in four answers a run of requests with the same complete error long enough for every batch in flight to see it six times); non-blocking Dispatch never parks and every unacknowledged metric is counted queue_full; blocking mode drops nothing; Shutdown() returns once the endpoint is idle and only after everything accepted was acknowledged.",
            "Retry-until-acknowledged is judged as bounded progress after the scripted faults stop (<= 6 decoded failures per batch, then a healthy endpoint); stalls only on two identical parked stack samples; any 2xx counts as an acknowledgement.",
            "DESIGN.md §4 C17"),
    "C18": ("exploration",
            "runtime monitoring: snapshot-immutability invariant at white-box accessor, forced interleavings via tag-guarded after-load hooks with exact delivery counts, free-running dispatch x admin ops under the race detector (reports scoped to mutator-vs-dispatch), sequential model of the table view",
            "A: slices loaded from the table/route snapshot are compared element-wise after every delete (all list lengths 1..6 x indexes, five list kinds, add/delete histories). B: a dispatcher is held right after loading the snapshot while the delete happens, then released: every entry that exists before and after must see the line exactly once (capture routes, non-idempotent rewriters, counting aggregators, real destinations, real route deleted); a dispatcher that never returns is confirmed with two stack samples (incl. dispatchers that find the inbox of a just-deleted aggregation full). C: 8 dispatchers x random admin operations: stable routes/destinations must get every line exactly once; race reports with one side in a mutator and the other in a dispatch path count. E: Table.Snapshot() vs model after each operation of random histories (index >= len rejected, unknown route no-op).",
            "Capture routes stand for routes at table level; refusing-port destinations make each hand-off visible once in a counter; forced interleavings cover the after-load point only.",
            "DESIGN.md §4 C18"),
    "C19": ("exploration",
            "recorded-history linearizability checking (porcupine v1.3.0, max-register model, partitioned by name) + counter and bad-metrics identities + race detector",
            "Concurrent histories of 1-8 dispatchers on validate_order tables with colliding timestamps: every per-name history (call/return stamps from one atomic counter, result = the unique line reached the capture route) must be linearizable against accept <=> strictly newer, incl. dotted/undotted spellings of one name and timestamps up to 2^32-1; out_of_order must count exactly the rejects; every reject must be reported by Table.Bad() and forwarded nowhere; sequential sub-histories must never reject a newer point; race reports inside validate.Ordered count.",
            "Schedules are whatever the Go scheduler produced under -race (validate has no hook); porcupine timeout = inconclusive; FNV-64 key collisions out of reach; bad metrics checked as last record per name.",
            "DESIGN.md §4 C19"),
    "C20": ("exploration",
            "runtime monitoring: differential + documentation-table oracle over table entries built by the real TOML and command paths (field read-back incl. unexported / running-state accessors, filter and rewriter behaviour probes), real relay binary for $-interpolation, under -race",
            "Generated configurations (blacklist x6 kinds, rewriters, aggregations incl. sub/substr and cache/dropRaw tri-state, carbon routes x3 types with 1-4 destinations and random subsets of the 18 destination options, grafanaNet routes with all options, booleans given true/false/omitted) are written as TOML sections and as the equivalent commands, built by the real code, and every field is read back (exported fields, Snapshot()s, periodFlush/periodReConn/connBufSize/ioBufSize, the parameters the running spool, disk queue and http client received): each must equal the written value, else the default transcribed from the docs; all values unique per case so ignored, swapped and misplaced options are visible. $-strings ($1, ${1}, ${1}x, $$, ${}, near-miss names, unterminated braces) go through readConfigFile in the real binary and are compared byte for byte with a model substituting only the four documented variables.",
            "The docs are the specification; values restricted to what the command grammar can express; kafkaMdm/pubsub/cloudWatch not constructible offline; an explicit value equal to the default cannot be told apart from an ignored option.",
            "DESIGN.md §4 C20"),
}

NOT_APPLICABLE = {
}


def main():
    hooks = subprocess.run(["git", "-C", "/repo", "log", "--format=%H %s", "--grep=^verif hooks:"],
                           stdout=subprocess.PIPE, text=True).stdout.split("\n")
    commits = [l.split()[0] for l in hooks if l.strip()]
    props = [json.loads(l)["id"] for l in open(os.path.join(VERIF, "properties.jsonl"))]
    checks = []
    for cid in props:
        if cid not in CHECKS:
            continue
        level, tech, text, note, ref = CHECKS[cid]
        checks.append({
            "property_id": cid,
            "quick_cmd": "./check %s --tier quick" % cid,
            "thorough_cmd": "./check %s --tier thorough" % cid,
            "evidence_file": "/verif/evidence/%s.json" % cid,
            "replay_cmd_template": "./check %s --replay {path}" % cid,
            "engine": "harness",
            "level_claimed": {"category": level, "text": text, "design_ref": ref},
            "level_note": note,
            "technique": tech,
        })
    na = []
    for cid in props:
        if cid in CHECKS:
            continue
        reason = NOT_APPLICABLE.get(cid, "check not built yet in this round (runtime-monitoring design exists in DESIGN.md §4); not claimed")
        na.append({"property_id": cid, "reason": reason})
    man = {
        "version": 1,
        "setup_cmd": "./setup.sh",
        "hooks": {
            "guard": "verif",
            "enable": "go build -race -tags verif (plus -overlay of /verif/access/<pkg>/*.go.txt read-only accessors); hook handlers are installed by the harness at run time",
            "baseline_off_cmd": "./baseline_off.sh",
            "source_commits": commits,
            "add_only": True,
        },
        "engines": [{
            "name": "harness",
            "path": "/verif/harness",
            "serves_properties": [c["property_id"] for c in checks],
            "kind_free_text": "Go harness (module verifharness, replace carbon-relay-ng => /repo working tree) built per check with -race -tags verif; python driver ./check builds, runs children under a watchdog, classifies crashes and race reports, applies KNOWN_FINDINGS.txt and writes evidence",
        }],
        "checks": checks,
        "not_applicable": na,
        "notes": "Technique family: runtime monitoring and sanitizers only. Exit 2 from a check = machinery failure / inconclusive, never a verdict. See DESIGN.md.",
    }
    with open(os.path.join(VERIF, "MANIFEST.json"), "w") as f:
        json.dump(man, f, indent=1)
    print("MANIFEST.json: %d checks, %d not_applicable" % (len(checks), len(na)))


if __name__ == "__main__":
    main()
