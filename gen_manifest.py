#!/usr/bin/env python3
"""Regenerates MANIFEST.json from the table below (run after adding a check)."""
import json, os, subprocess

VERIF = os.path.dirname(os.path.abspath(__file__))

# id -> (level, technique, text, note, design section)
CHECKS = {
    "C08": ("fault_enumeration",
            "runtime monitoring with fault enumeration: every crash-point hook firing of generated histories snapshots the spool directory; a child reopens it with the real code; oracle over delivered run vs E/H/Hs/S; real SIGKILL sample",
            "Every firing of the tag-guarded crash-point hook (after each file write, fsync, meta tmp create/write, rename, segment remove, bad-file rename, rollover, and at rest) in every generated put/get history is treated as the instant the relay dies: the directory is copied, a child process reopens it with the real DiskQueue, drains it and the delivered run is judged against what the harness knew at that instant (contiguous byte-identical run, starts no later than the first unhanded message and no earlier than what was consumed at the last completed sync, reaches the last message written before that sync); then fresh messages are enqueued and drained. A sample of histories is also run in a child that really SIGKILLs itself at the point. Enumerates all crash points of the histories generated, not all histories.",
            "Process death only (page cache survives); hook placement covers every filesystem mutation in diskqueue.go (checked by reading); tmpfs.",
            "DESIGN.md §4 C08"),
    "C09": ("exploration",
            "runtime monitoring: real DiskQueue driven step-by-step, reference FIFO model + depth invariant at idle-hook quiescent points, under -race",
            "Random operation histories (put/get/close+reopen, sizes 0..3 segments, segment limit from 1 byte, syncEvery from 1) are executed against the real nsqd.DiskQueue; after every operation the I/O loop is awaited at its idle point and every delivered message, Depth() and the ready/empty state are compared with a slice model; plus concurrent producer histories checked for per-producer order and exactly-once. Held-on-N-histories, not a proof.",
            "Trusts the tag-guarded idle hook placement, tmpfs as the filesystem, and that a clean restart is Close()+NewDiskQueue in one process.",
            "DESIGN.md §4 C09"),
}

NOT_APPLICABLE = {
}


def main():
    hooks = subprocess.run(["git", "-C", "/repo", "log", "--format=%H %s", "--grep=^verif hooks:"],
                           stdout=subprocess.PIPE, text=True).stdout.split("\n")
    commits = [l.split()[0] for l in hooks if l.strip()]
    props = [json.loads(l)["id"] for l in open(os.path.join(VERIF, "properties.jsonl"))]
    checks = []
    for cid in props:
        if cid not in CHECKS:
            continue
        level, tech, text, note, ref = CHECKS[cid]
        checks.append({
            "property_id": cid,
            "quick_cmd": "./check %s --tier quick" % cid,
            "thorough_cmd": "./check %s --tier thorough" % cid,
            "evidence_file": "/verif/evidence/%s.json" % cid,
            "replay_cmd_template": "./check %s --replay {path}" % cid,
            "engine": "harness",
            "level_claimed": {"category": level, "text": text, "design_ref": ref},
            "level_note": note,
            "technique": tech,
        })
    na = []
    for cid in props:
        if cid in CHECKS:
            continue
        reason = NOT_APPLICABLE.get(cid, "check not built yet in this round (runtime-monitoring design exists in DESIGN.md §4); not claimed")
        na.append({"property_id": cid, "reason": reason})
    man = {
        "version": 1,
        "setup_cmd": "./setup.sh",
        "hooks": {
            "guard": "verif",
            "enable": "go build -race -tags verif (plus -overlay of /verif/access/<pkg>/*.go.txt read-only accessors); hook handlers are installed by the harness at run time",
            "baseline_off_cmd": "./baseline_off.sh",
            "source_commits": commits,
            "add_only": True,
        },
        "engines": [{
            "name": "harness",
            "path": "/verif/harness",
            "serves_properties": [c["property_id"] for c in checks],
            "kind_free_text": "Go harness (module verifharness, replace carbon-relay-ng => /repo working tree) built per check with -race -tags verif; python driver ./check builds, runs children under a watchdog, classifies crashes and race reports, applies KNOWN_FINDINGS.txt and writes evidence",
        }],
        "checks": checks,
        "not_applicable": na,
        "notes": "Technique family: runtime monitoring and sanitizers only. Exit 2 from a check = machinery failure / inconclusive, never a verdict. See DESIGN.md.",
    }
    with open(os.path.join(VERIF, "MANIFEST.json"), "w") as f:
        json.dump(man, f, indent=1)
    print("MANIFEST.json: %d checks, %d not_applicable" % (len(checks), len(na)))


if __name__ == "__main__":
    main()
